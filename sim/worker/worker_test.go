// Package worker is the process in which simulated runs execute. The driver
// (cmd/verif) builds it with `go test -c` and fans seeds out to many worker
// processes; one JSON object per line, prefixed "@@VERIF ", is the protocol.
package worker

import (
	"encoding/json"
	"fmt"
	"os"
	"runtime"
	"sort"
	"strconv"
	"strings"
	"sync/atomic"
	"testing"
	"time"

	"verif/sim/checks"
	"verif/sim/prng"
)

type Job struct {
	Property  string          `json:"property"`
	Tier      string          `json:"tier"`
	Seeds     []uint64        `json:"seeds"`
	First     int             `json:"first"`
	Replay    *checks.RunSpec `json:"replay,omitempty"`
	Verbose   bool            `json:"verbose,omitempty"`
	Budget    float64         `json:"budget_s,omitempty"` // wall-clock budget for this worker
	TraceFile string          `json:"trace_file,omitempty"`
	RunLimitS float64         `json:"run_limit_s,omitempty"` // wall-clock watchdog per run
}

func emit(kind string, v interface{}) {
	b, _ := json.Marshal(v)
	fmt.Printf("@@VERIF %s %s\n", kind, b)
}

// watchdog: a run whose bubble never becomes quiescent again (a goroutine of the code under test waits for a
// mutex whose holder is parked for good: synctest does not count mutex waits as durable) would hang the worker.
// A goroutine outside every bubble watches the wall clock of the current run, dumps all stacks and exits.
var runStarted atomic.Int64 // unix nanoseconds of the start of the current run (0: no run in progress)

func wedgeClass(dump string) string {
	var frames []string
	for _, g := range strings.Split(dump, "\n\n") {
		head := g
		if i := strings.IndexByte(g, '\n'); i > 0 {
			head = g[:i]
		}
		// goroutines that keep the bubble from becoming quiescent: waiting for a lock or a channel whose other side
		// is parked for good, or spinning
		if !(strings.Contains(head, "chan send") || strings.Contains(head, "sync.Mutex.Lock") || strings.Contains(head, "sync.RWMutex") ||
			((strings.Contains(head, "[running") || strings.Contains(head, "[runnable")) && strings.Contains(head, "synctest bubble"))) {
			continue
		}
		for _, line := range strings.Split(g, "\n") {
			line = strings.TrimSpace(line)
			if strings.HasPrefix(line, "github.com/IBM/TSS/") {
				if i := strings.LastIndex(line, "("); i > 0 {
					line = line[:i]
				}
				frames = append(frames, strings.TrimPrefix(line, "github.com/IBM/TSS/"))
				break
			}
		}
	}
	sort.Strings(frames)
	var uniq []string
	for _, f := range frames {
		if len(uniq) == 0 || uniq[len(uniq)-1] != f {
			uniq = append(uniq, f)
		}
	}
	if len(uniq) > 3 {
		uniq = uniq[:3]
	}
	return "wedge/" + strings.Join(uniq, "|")
}

func startWatchdog(limit time.Duration) {
	go func() {
		lastBeat, lastChange := int64(-1), time.Now()
		for {
			time.Sleep(500 * time.Millisecond)
			st := runStarted.Load()
			if st == 0 {
				lastBeat, lastChange = -1, time.Now()
				continue
			}
			// a run that keeps reaching quiescent points is slow, not wedged (a loaded machine, heavy crypto); the limit
			// applies to the time WITHOUT a new quiescent point, and twenty times the limit to the run as a whole
			if hb := prng.Heartbeat.Load(); hb != lastBeat {
				lastBeat, lastChange = hb, time.Now()
			}
			if time.Since(lastChange) < limit && time.Since(time.Unix(0, st)) < 20*limit {
				continue
			}
			buf := make([]byte, 4<<20)
			n := runtime.Stack(buf, true)
			dump := string(buf[:n])
			fmt.Fprintf(os.Stderr, "VERIF-WEDGE class=%s\nthe run did not make progress for %v of wall-clock time: the simulated system never became quiescent again\n%s\n", wedgeClass(dump), limit, dump)
			os.Exit(3)
		}
	}()
}

func TestWorker(t *testing.T) {
	var job Job
	if f := os.Getenv("VERIF_JOB_FILE"); f != "" {
		b, err := os.ReadFile(f)
		if err != nil {
			t.Fatal(err)
		}
		if err := json.Unmarshal(b, &job); err != nil {
			t.Fatal(err)
		}
	} else if p := os.Getenv("VERIF_PROP"); p != "" {
		job.Property = p
		job.Tier = os.Getenv("VERIF_TIER")
		if job.Tier == "" {
			job.Tier = "quick"
		}
		job.Verbose = true
		rng := os.Getenv("VERIF_SEEDS")
		if rng == "" {
			rng = "1-20"
		}
		parts := strings.Split(rng, "-")
		a, _ := strconv.ParseUint(parts[0], 10, 64)
		b := a
		if len(parts) > 1 {
			b, _ = strconv.ParseUint(parts[1], 10, 64)
		}
		for s := a; s <= b; s++ {
			job.Seeds = append(job.Seeds, s)
		}
	} else {
		t.Skip("no job")
	}
	c := checks.Registry[job.Property]
	if c == nil {
		t.Fatalf("unknown property %q", job.Property)
	}
	start := time.Now()
	limit := 25 * time.Second
	if job.RunLimitS > 0 {
		limit = time.Duration(job.RunLimitS * float64(time.Second))
	}
	startWatchdog(limit)
	if job.Replay != nil {
		emit("begin", map[string]interface{}{"seed": job.Replay.Seed})
		job.Replay.TraceFile = job.TraceFile
		runStarted.Store(time.Now().UnixNano())
		res := c.Run(t, *job.Replay)
		runStarted.Store(0)
		emit("end", res)
		return
	}
	for pos, seed := range job.Seeds {
		if job.Budget > 0 && time.Since(start).Seconds() > job.Budget {
			emit("budget", map[string]interface{}{"next_seed": seed})
			break
		}
		emit("begin", map[string]interface{}{"seed": seed})
		runStarted.Store(time.Now().UnixNano())
		res := c.Run(t, checks.RunSpec{Property: job.Property, Seed: seed, Index: job.First + pos, Tier: job.Tier})
		runStarted.Store(0)
		res.Index = job.First + pos
		if len(res.Violations) == 0 && !job.Verbose {
			res.Actions = nil
		}
		if job.Verbose {
			acts := res.Actions
			res.Actions = nil
			emit("end", res)
			res.Actions = acts
		} else {
			emit("end", res)
		}
	}
	emit("done", map[string]interface{}{"wall_s": time.Since(start).Seconds()})
}
