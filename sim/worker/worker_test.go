// Package worker is the process in which simulated runs execute. The driver
// (cmd/verif) builds it with `go test -c` and fans seeds out to many worker
// processes; one JSON object per line, prefixed "@@VERIF ", is the protocol.
package worker

import (
	"encoding/json"
	"fmt"
	"os"
	"strconv"
	"strings"
	"testing"
	"time"

	"verif/sim/checks"
)

type Job struct {
	Property  string          `json:"property"`
	Tier      string          `json:"tier"`
	Seeds     []uint64        `json:"seeds"`
	First     int             `json:"first"`
	Replay    *checks.RunSpec `json:"replay,omitempty"`
	Verbose   bool            `json:"verbose,omitempty"`
	Budget    float64         `json:"budget_s,omitempty"` // wall-clock budget for this worker
	TraceFile string          `json:"trace_file,omitempty"`
}

func emit(kind string, v interface{}) {
	b, _ := json.Marshal(v)
	fmt.Printf("@@VERIF %s %s\n", kind, b)
}

func TestWorker(t *testing.T) {
	var job Job
	if f := os.Getenv("VERIF_JOB_FILE"); f != "" {
		b, err := os.ReadFile(f)
		if err != nil {
			t.Fatal(err)
		}
		if err := json.Unmarshal(b, &job); err != nil {
			t.Fatal(err)
		}
	} else if p := os.Getenv("VERIF_PROP"); p != "" {
		job.Property = p
		job.Tier = os.Getenv("VERIF_TIER")
		if job.Tier == "" {
			job.Tier = "quick"
		}
		job.Verbose = true
		rng := os.Getenv("VERIF_SEEDS")
		if rng == "" {
			rng = "1-20"
		}
		parts := strings.Split(rng, "-")
		a, _ := strconv.ParseUint(parts[0], 10, 64)
		b := a
		if len(parts) > 1 {
			b, _ = strconv.ParseUint(parts[1], 10, 64)
		}
		for s := a; s <= b; s++ {
			job.Seeds = append(job.Seeds, s)
		}
	} else {
		t.Skip("no job")
	}
	c := checks.Registry[job.Property]
	if c == nil {
		t.Fatalf("unknown property %q", job.Property)
	}
	start := time.Now()
	if job.Replay != nil {
		emit("begin", map[string]interface{}{"seed": job.Replay.Seed})
		job.Replay.TraceFile = job.TraceFile
		res := c.Run(t, *job.Replay)
		emit("end", res)
		return
	}
	for pos, seed := range job.Seeds {
		if job.Budget > 0 && time.Since(start).Seconds() > job.Budget {
			emit("budget", map[string]interface{}{"next_seed": seed})
			break
		}
		emit("begin", map[string]interface{}{"seed": seed})
		res := c.Run(t, checks.RunSpec{Property: job.Property, Seed: seed, Index: job.First + pos, Tier: job.Tier})
		res.Index = job.First + pos
		if len(res.Violations) == 0 && !job.Verbose {
			res.Actions = nil
		}
		if job.Verbose {
			acts := res.Actions
			res.Actions = nil
			emit("end", res)
			res.Actions = acts
		} else {
			emit("end", res)
		}
	}
	emit("done", map[string]interface{}{"wall_s": time.Since(start).Seconds()})
}
