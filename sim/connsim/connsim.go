// Package connsim is engine E3: an in-memory byte-stream network whose
// delivery the simulator controls. net.go's real code (handshake,
// authentication, framing, writer goroutines) runs over it under real
// crypto/tls. Every directed byte pipe holds what was written but not yet
// released; at quiescence the scheduler releases a chunk of a pipe (short reads
// at arbitrary boundaries), stalls it, flips a bit in it, or resets the
// connection.
package connsim

import (
	"errors"
	"fmt"
	"io"
	"net"
	"sort"
	"sync"
	"time"

	"verif/sim/prng"
)

type Addr string

func (a Addr) Network() string { return "sim" }
func (a Addr) String() string  { return string(a) }

type Pipe struct {
	Name     string
	n        *Net
	pending  []byte // written, not yet released to the reader
	readable []byte // released, not yet read
	eof      bool   // writer closed: reader sees EOF after draining
	reset    bool   // connection reset: both directions fail at once
	notifyR  chan struct{}
	notifyW  chan struct{}
	Stalled  bool
	Released int64
	Written  int64
	releases int
	FlipNext bool
}

type Conn struct {
	in, out       *Pipe
	local, remote Addr
	Name          string
}

type Listener struct {
	n      *Net
	addr   Addr
	accept chan *Conn
	closed chan struct{}
	once   sync.Once
}

type Net struct {
	mu        sync.Mutex
	Seed      uint64
	listeners map[string]*Listener
	pipes     map[string]*Pipe
	connSeq   map[string]int
	Refuse    map[string]bool // host (without port) whose listener refuses connections
	Capacity  int
	Faults    map[string]int
	Conns     []*Conn // client sides, in creation order per name
	Quiet     bool    // teardown: resets are housekeeping, not injected faults
}

func NewNet(seed uint64) *Net {
	return &Net{Seed: seed, listeners: map[string]*Listener{}, pipes: map[string]*Pipe{}, connSeq: map[string]int{}, Refuse: map[string]bool{}, Capacity: 256 << 10, Faults: map[string]int{}}
}

func hostOf(addr string) string {
	for i := len(addr) - 1; i >= 0; i-- {
		if addr[i] == ':' {
			return addr[:i]
		}
	}
	return addr
}

// Listen registers a listener for host (connections to any port of host reach it).
func (n *Net) Listen(host string) *Listener {
	l := &Listener{n: n, addr: Addr(host), accept: make(chan *Conn, 64), closed: make(chan struct{})}
	n.mu.Lock()
	n.listeners[host] = l
	n.mu.Unlock()
	return l
}

func (l *Listener) Accept() (net.Conn, error) {
	select {
	case c := <-l.accept:
		return c, nil
	case <-l.closed:
		return nil, errors.New("listener closed")
	}
}

func (l *Listener) Close() error {
	l.once.Do(func() { close(l.closed) })
	return nil
}

func (l *Listener) Addr() net.Addr { return l.addr }

func (n *Net) newPipe(name string) *Pipe {
	p := &Pipe{Name: name, n: n, notifyR: make(chan struct{}, 1), notifyW: make(chan struct{}, 1)}
	n.pipes[name] = p
	return p
}

// Dial connects to addr ("host:port"; the port identifies the dialler so that
// connection names do not depend on goroutine scheduling).
func (n *Net) Dial(network, addr string) (net.Conn, error) {
	host := hostOf(addr)
	n.mu.Lock()
	l := n.listeners[host]
	if l == nil || n.Refuse[host] {
		n.Faults["dial-refused"]++
		n.mu.Unlock()
		return nil, fmt.Errorf("dial %s: connection refused", addr)
	}
	seq := n.connSeq[addr]
	n.connSeq[addr] = seq + 1
	name := fmt.Sprintf("%s#%d", addr, seq)
	up := n.newPipe(name + "/up")     // client -> server
	down := n.newPipe(name + "/down") // server -> client
	cc := &Conn{in: down, out: up, local: Addr("client-of-" + addr), remote: Addr(addr), Name: name}
	sc := &Conn{in: up, out: down, local: Addr(addr), remote: Addr("client-of-" + addr), Name: name}
	n.Conns = append(n.Conns, cc)
	n.mu.Unlock()
	select {
	case l.accept <- sc:
	case <-l.closed:
		return nil, fmt.Errorf("dial %s: connection refused", addr)
	}
	return cc, nil
}

func (c *Conn) Read(b []byte) (int, error) {
	p := c.in
	for {
		p.n.mu.Lock()
		if p.reset {
			p.n.mu.Unlock()
			return 0, errors.New("connection reset by peer")
		}
		if len(p.readable) > 0 {
			k := copy(b, p.readable)
			p.readable = p.readable[k:]
			p.n.mu.Unlock()
			select {
			case p.notifyW <- struct{}{}:
			default:
			}
			return k, nil
		}
		if p.eof && len(p.pending) == 0 {
			p.n.mu.Unlock()
			return 0, io.EOF
		}
		p.n.mu.Unlock()
		<-p.notifyR
	}
}

func (c *Conn) Write(b []byte) (int, error) {
	p := c.out
	written := 0
	for written < len(b) {
		p.n.mu.Lock()
		if p.reset || p.eof {
			p.n.mu.Unlock()
			return written, errors.New("write on closed connection")
		}
		space := p.n.Capacity - len(p.pending) - len(p.readable)
		if space > 0 {
			k := len(b) - written
			if k > space {
				k = space
			}
			p.pending = append(p.pending, b[written:written+k]...)
			p.Written += int64(k)
			written += k
			p.n.mu.Unlock()
			continue
		}
		p.n.mu.Unlock()
		<-p.notifyW // back-pressure: the peer does not read (or the simulator does not release)
	}
	return written, nil
}

func wake(ch chan struct{}) {
	select {
	case ch <- struct{}{}:
	default:
	}
}

func (c *Conn) Close() error {
	c.in.n.mu.Lock()
	c.out.eof = true
	c.in.reset = c.in.reset || false
	c.in.n.mu.Unlock()
	wake(c.out.notifyR)
	wake(c.out.notifyW)
	// a local reader blocked on this connection must return too
	c.in.n.mu.Lock()
	c.in.eof = true
	c.in.n.mu.Unlock()
	wake(c.in.notifyR)
	return nil
}

func (c *Conn) LocalAddr() net.Addr                { return c.local }
func (c *Conn) RemoteAddr() net.Addr               { return c.remote }
func (c *Conn) SetDeadline(t time.Time) error      { return nil }
func (c *Conn) SetReadDeadline(t time.Time) error  { return nil }
func (c *Conn) SetWriteDeadline(t time.Time) error { return nil }

// ---- simulator side (root goroutine, at quiescence)

// Releasable returns the names of the pipes that hold unreleased bytes, sorted.
func (n *Net) Releasable() []string {
	n.mu.Lock()
	defer n.mu.Unlock()
	var out []string
	for name, p := range n.pipes {
		if len(p.pending) > 0 && !p.Stalled && !p.reset {
			out = append(out, name)
		}
	}
	sort.Strings(out)
	return out
}

func (n *Net) PendingBytes() int {
	n.mu.Lock()
	defer n.mu.Unlock()
	t := 0
	for _, p := range n.pipes {
		if !p.Stalled && !p.reset {
			t += len(p.pending)
		}
	}
	return t
}

// Release moves a chunk of the pipe's pending bytes to its reader. The chunk
// size is a pure function of (seed, pipe, ordinal of the release on that pipe).
func (n *Net) Release(name string) {
	n.mu.Lock()
	p := n.pipes[name]
	if p == nil || len(p.pending) == 0 {
		n.mu.Unlock()
		return
	}
	r := prng.Derive(n.Seed, fmt.Sprintf("chunk/%s/%d", name, p.releases))
	p.releases++
	k := len(p.pending)
	x := r.Float64()
	early := p.Released < 400
	switch {
	case early && x < 0.15:
		k = 1
	case early && x < 0.35:
		k = 1 + r.Intn(7)
	case x < 0.08:
		k = 1 + r.Intn(3)
	case x < 0.2:
		k = 1 + r.Intn(64)
	case x < 0.35:
		k = 1 + r.Intn(4096)
	}
	if k > len(p.pending) {
		k = len(p.pending)
	}
	if k < len(p.pending) {
		n.Faults["short-read-boundary"]++
	}
	chunk := p.pending[:k]
	if p.FlipNext {
		c := append([]byte(nil), chunk...)
		c[r.Intn(len(c))] ^= byte(1 << r.Intn(8))
		chunk = c
		p.FlipNext = false
		n.Faults["bit-flip"]++
	}
	p.readable = append(p.readable, chunk...)
	p.pending = p.pending[k:]
	p.Released += int64(k)
	n.mu.Unlock()
	wake(p.notifyR)
}

// Reset breaks the connection the pipe belongs to, in both directions, at once.
func (n *Net) Reset(connName string) {
	n.mu.Lock()
	for _, suffix := range []string{"/up", "/down"} {
		if p := n.pipes[connName+suffix]; p != nil {
			p.reset = true
			p.pending = nil
			wake(p.notifyR)
			wake(p.notifyW)
		}
	}
	if !n.Quiet {
		n.Faults["reset"]++
	}
	n.mu.Unlock()
}

func (n *Net) Pipe(name string) *Pipe {
	n.mu.Lock()
	defer n.mu.Unlock()
	return n.pipes[name]
}

// ConnNames returns the names of all connections created so far, sorted.
func (n *Net) ConnNames() []string {
	n.mu.Lock()
	defer n.mu.Unlock()
	var out []string
	for _, c := range n.Conns {
		out = append(out, c.Name)
	}
	sort.Strings(out)
	return out
}

func (n *Net) SetStalled(pipe string, v bool) {
	n.mu.Lock()
	if p := n.pipes[pipe]; p != nil {
		p.Stalled = v
	}
	n.mu.Unlock()
}

func (n *Net) SetFlip(pipe string) {
	n.mu.Lock()
	if p := n.pipes[pipe]; p != nil {
		p.FlipNext = true
	}
	n.mu.Unlock()
}
