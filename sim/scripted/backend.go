// Package scripted is the harness' stand-in for an MPC backend: a generic
// R-round protocol in which every party broadcasts and sends point-to-point
// messages each round. It implements types.KeyGenerator and types.Signer, never
// panics on any input and records every interaction with the orchestrator, so
// that oracles can compare what was handed over with what was on the wire.
package scripted

import (
	"context"
	"crypto/sha256"
	"encoding/json"
	"fmt"
	"sort"
	"sync"
	"sync/atomic"
	"time"

	"verif/sim/prng"
)

type Params struct {
	Rounds    int   `json:"rounds"`
	Bcast     int   `json:"bcast"`     // broadcasts per round and party
	P2P       int   `json:"p2p"`       // point-to-point messages per round and ordered pair
	Lockstep  bool  `json:"lockstep"`  // wait for round r from everybody before sending round r+1
	RoundBase uint8 `json:"roundBase"` // number of the first round (rounds are 0..127 on the wire)
	BodyLen   int   `json:"bodyLen"`
	// InitDelayMs: Init takes this long on the simulated clock (a backend whose initialisation is not
	// instantaneous, as with the tss-lib adapters): the orchestrator is parked between the end of the first
	// synchronisation and the registration of the session's handlers, and other events can land in between
	InitDelayMs int `json:"initDelayMs,omitempty"`
	// ClassifyDelayMs: classifying a third of the messages (chosen by content) takes this long on the simulated
	// clock. The orchestrator calls the classifier with no lock held, so the handler of that message is parked in
	// the middle of HandleMessage (its link delivers nothing meanwhile, as with one reader goroutine per
	// connection) while messages of other links, and local calls, go ahead: handling overlaps deterministically.
	ClassifyDelayMs int `json:"classifyDelayMs,omitempty"`
	// LingerMs: a backend that does not return promptly once its context has ended (as the tss-lib ECDSA adapter,
	// whose pre-parameter generation ignores the context): KeyGen/Sign return this much simulated time after it.
	LingerMs int `json:"lingerMs,omitempty"`
}

type Event struct {
	Seq       int64
	Step      int64
	Node      uint16 // universal id of the node that owns the backend
	Instance  string // label of the backend instance ("kg1", "sg2", ...)
	Kind      string // init | onmsg | send | classify | keygen-start | keygen-end | sign-start | sign-end
	From      uint16
	To        uint16
	Bcast     bool
	Payload   []byte
	Parties   []uint16
	Threshold int
	Err       string
}

// SimDelay is a delay on the simulated clock of about ms milliseconds. Two sleeps that begin at the same simulated
// instant (simulated time stands still between two steps of the simulator) must not end at the same instant, else
// the Go scheduler decides which sleeper goes first: a few microseconds derived from who sleeps keep them apart.
func SimDelay(ms int, who ...[]byte) time.Duration {
	return time.Duration(ms)*time.Millisecond + time.Duration(prng.Hash64(who...)%99991)*time.Nanosecond*10
}

type Recorder struct {
	mu     sync.Mutex
	Events []Event
	seq    int64
	StepFn func() int64
	// Quiet: record nothing (race-detector runs: a recorder shared by all instances orders every two goroutines
	// that enter a backend callback, which hides races between sessions)
	Quiet bool
}

func (r *Recorder) add(e Event) {
	if r.Quiet {
		return
	}
	r.mu.Lock()
	defer r.mu.Unlock()
	r.seq++
	e.Seq = r.seq
	if r.StepFn != nil {
		e.Step = r.StepFn()
	}
	r.Events = append(r.Events, e)
}

func (r *Recorder) Snapshot() []Event {
	r.mu.Lock()
	defer r.mu.Unlock()
	return append([]Event(nil), r.Events...)
}

func (r *Recorder) Len() int {
	r.mu.Lock()
	defer r.mu.Unlock()
	return len(r.Events)
}

// Header layout of a scripted protocol message.
const HeaderLen = 5

func Encode(round uint8, bcast bool, fromPID uint16, seq uint16, body []byte) []byte {
	k := round << 1
	if bcast {
		k |= 1
	}
	b := []byte{k, byte(fromPID >> 8), byte(fromPID), byte(seq >> 8), byte(seq)}
	return append(b, body...)
}

type Header struct {
	Round   uint8
	Bcast   bool
	FromPID uint16
	Seq     uint16
}

func Decode(p []byte) (Header, error) {
	if len(p) < HeaderLen {
		return Header{}, fmt.Errorf("scripted message too short (%d bytes)", len(p))
	}
	return Header{Round: p[0] >> 1, Bcast: p[0]&1 == 1, FromPID: uint16(p[1])<<8 | uint16(p[2]), Seq: uint16(p[3])<<8 | uint16(p[4])}, nil
}

// Classify is the receiver-side classification (round, broadcast?) of a payload.
func Classify(p []byte) (uint8, bool, error) {
	h, err := Decode(p)
	if err != nil {
		return 0, false, err
	}
	return h.Round, h.Bcast, nil
}

type Stored struct {
	Parties    []uint16 `json:"parties"`
	Threshold  int      `json:"threshold"`
	Transcript []byte   `json:"transcript"`
	Self       uint16   `json:"self"`
}

type Backend struct {
	Node     uint16 // universal id of the owning node
	SelfPID  uint16 // party id this node represents
	Instance string
	P        Params
	Seed     uint64
	Rec      *Recorder

	mu         sync.Mutex
	parties    []uint16
	threshold  int
	send       func(msg []byte, isBroadcast bool, to uint16)
	wake       chan struct{}
	bcasts     map[string][]byte // key from/round/seq -> payload (broadcasts, own included)
	count      map[[2]int]int    // (from, round) -> number of messages received
	stored     *Stored
	inited     bool
	OnMsgCalls int64
}

func (b *Backend) rec(e Event) {
	e.Node = b.Node
	e.Instance = b.Instance
	if b.Rec != nil {
		b.Rec.add(e)
	}
}

func (b *Backend) ClassifyMsg(msgBytes []byte) (uint8, bool, error) {
	if b.P.ClassifyDelayMs > 0 && prng.Hash64(msgBytes)%3 == 0 {
		time.Sleep(SimDelay(b.P.ClassifyDelayMs, msgBytes, []byte{byte(b.Node), byte(b.Node >> 8)}))
	}
	r, bc, err := Classify(msgBytes)
	return r, bc, err
}

func (b *Backend) Init(parties []uint16, threshold int, sendMsg func(msg []byte, isBroadcast bool, to uint16)) {
	if b.P.InitDelayMs > 0 {
		time.Sleep(SimDelay(b.P.InitDelayMs, []byte(b.Instance), []byte{byte(b.Node), byte(b.Node >> 8)}))
	}
	b.mu.Lock()
	b.parties = append([]uint16(nil), parties...)
	b.threshold = threshold
	b.send = sendMsg
	b.wake = make(chan struct{}, 1)
	b.bcasts = map[string][]byte{}
	b.count = map[[2]int]int{}
	b.inited = true
	b.mu.Unlock()
	b.rec(Event{Kind: "init", Parties: append([]uint16(nil), parties...), Threshold: threshold})
}

func (b *Backend) OnMsg(msgBytes []byte, from uint16, broadcast bool) {
	atomic.AddInt64(&b.OnMsgCalls, 1)
	var cp []byte
	if msgBytes != nil {
		cp = append([]byte{}, msgBytes...)
	}
	b.rec(Event{Kind: "onmsg", From: from, Bcast: broadcast, Payload: cp})
	h, err := Decode(msgBytes)
	if err != nil {
		return
	}
	b.mu.Lock()
	if !b.inited {
		b.mu.Unlock()
		return
	}
	if broadcast {
		b.bcasts[fmt.Sprintf("%05d/%03d/%05d", from, h.Round, h.Seq)] = cp
	}
	b.count[[2]int{int(from), b.logical(h.Round)}]++
	w := b.wake
	b.mu.Unlock()
	select {
	case w <- struct{}{}:
	default:
	}
}

func (b *Backend) body(round uint8, bcast bool, seq uint16, to uint16) []byte {
	n := b.P.BodyLen
	if n < 8 {
		n = 8
	}
	return prng.Derive(b.Seed, fmt.Sprintf("body/%s/%d/%d/%v/%d/%d", b.Instance, b.Node, round, bcast, seq, to)).Bytes(n)
}

// The reliable-broadcast layer identifies a broadcast by (sender, round), so a
// well-formed backend gives every broadcast of one sender its own round number:
// wire round = RoundBase + logicalRound*width + index.
func (b *Backend) width() int {
	if b.P.Bcast > 1 {
		return b.P.Bcast
	}
	return 1
}

func (b *Backend) logical(wire uint8) int {
	return (int(wire) - int(b.P.RoundBase)) / b.width()
}

func (b *Backend) sendRound(r int) {
	base := b.P.RoundBase + uint8(r*b.width())
	for i := 0; i < b.P.Bcast; i++ {
		round := base + uint8(i)
		p := Encode(round, true, b.SelfPID, uint16(i), b.body(round, true, uint16(i), 0))
		b.mu.Lock()
		b.bcasts[fmt.Sprintf("%05d/%03d/%05d", b.SelfPID, round, i)] = p
		b.mu.Unlock()
		b.rec(Event{Kind: "send", Bcast: true, Payload: p})
		b.send(p, true, 0)
	}
	for _, to := range b.parties {
		if to == b.SelfPID {
			continue
		}
		round := base
		for i := 0; i < b.P.P2P; i++ {
			p := Encode(round, false, b.SelfPID, uint16(i), b.body(round, false, uint16(i), to))
			b.rec(Event{Kind: "send", Bcast: false, To: to, Payload: p})
			b.send(p, false, to)
		}
	}
}

func (b *Backend) roundComplete(r int) bool {
	round := r
	want := b.P.Bcast + b.P.P2P
	for _, p := range b.parties {
		if p == b.SelfPID {
			continue
		}
		if b.count[[2]int{int(p), round}] < want {
			return false
		}
	}
	return true
}

func (b *Backend) run(ctx context.Context) ([]byte, error) {
	b.mu.Lock()
	inited := b.inited
	b.mu.Unlock()
	if !inited {
		return nil, fmt.Errorf("scripted backend used before Init")
	}
	if !b.P.Lockstep {
		for r := 0; r < b.P.Rounds; r++ {
			b.sendRound(r)
		}
	}
	for r := 0; r < b.P.Rounds; r++ {
		if b.P.Lockstep {
			b.sendRound(r)
		}
		for {
			b.mu.Lock()
			ok := b.roundComplete(r)
			b.mu.Unlock()
			if ok {
				break
			}
			select {
			case <-ctx.Done():
				if b.P.LingerMs > 0 {
					time.Sleep(SimDelay(b.P.LingerMs, []byte(b.Instance), []byte{byte(b.Node), byte(b.Node >> 8)}))
				}
				return nil, fmt.Errorf("scripted protocol: round %d incomplete: %v", r, ctx.Err())
			case <-b.wake:
			}
		}
	}
	b.mu.Lock()
	defer b.mu.Unlock()
	keys := make([]string, 0, len(b.bcasts))
	for k := range b.bcasts {
		keys = append(keys, k)
	}
	sort.Strings(keys)
	h := sha256.New()
	for _, k := range keys {
		h.Write([]byte(k))
		h.Write(b.bcasts[k])
	}
	return h.Sum(nil), nil
}

func (b *Backend) KeyGen(ctx context.Context) ([]byte, error) {
	b.rec(Event{Kind: "keygen-start"})
	tr, err := b.run(ctx)
	if err != nil {
		b.rec(Event{Kind: "keygen-end", Err: err.Error()})
		return nil, err
	}
	b.mu.Lock()
	st := Stored{Parties: b.parties, Threshold: b.threshold, Transcript: tr, Self: b.SelfPID}
	b.mu.Unlock()
	out, _ := json.Marshal(st)
	b.rec(Event{Kind: "keygen-end", Payload: out})
	return out, nil
}

func (b *Backend) SetShareData(shareData []byte) error {
	var st Stored
	if err := json.Unmarshal(shareData, &st); err != nil {
		return fmt.Errorf("scripted: unusable share data: %v", err)
	}
	if len(st.Transcript) != sha256.Size {
		return fmt.Errorf("scripted: unusable share data: transcript length %d", len(st.Transcript))
	}
	b.mu.Lock()
	b.stored = &st
	b.mu.Unlock()
	return nil
}

func (b *Backend) Sign(ctx context.Context, msg []byte) ([]byte, error) {
	b.rec(Event{Kind: "sign-start", Payload: append([]byte{}, msg...)})
	b.mu.Lock()
	st := b.stored
	b.mu.Unlock()
	if st == nil {
		b.rec(Event{Kind: "sign-end", Err: "no share data"})
		return nil, fmt.Errorf("scripted: no share data")
	}
	tr, err := b.run(ctx)
	if err != nil {
		b.rec(Event{Kind: "sign-end", Err: err.Error()})
		return nil, err
	}
	h := sha256.New()
	h.Write([]byte("scripted-signature"))
	h.Write(st.Transcript)
	h.Write(msg)
	h.Write(tr)
	sig := h.Sum(nil)
	b.rec(Event{Kind: "sign-end", Payload: sig})
	return sig, nil
}

func (b *Backend) ThresholdPK() ([]byte, error) {
	b.mu.Lock()
	defer b.mu.Unlock()
	if b.stored == nil {
		return nil, fmt.Errorf("scripted: no share data")
	}
	h := sha256.Sum256(append([]byte("scripted-pk"), b.stored.Transcript...))
	return h[:], nil
}
