package checks

import (
	"encoding/json"
	"fmt"
	"strings"
	"testing"
	"time"

	"verif/sim/netsim"
	"verif/sim/prng"
	"verif/sim/scripted"
)

// C04 — reliable broadcast totality in fault-free runs, for every interleaving.

type C04Cfg struct {
	Deploy        DeployCfg `json:"deploy"`
	Strategy      string    `json:"strategy"`
	Serial        bool      `json:"serial"`
	Op            string    `json:"op"` // keygen | sign | both
	N             int       `json:"n"`
	T             int       `json:"t"`
	Late          int       `json:"late"` // index into IDs of a node that starts late (-1: none)
	Topic         string    `json:"topic"`
	Signers       []uint16  `json:"signers,omitempty"`       // explicit signer set (default: drawn)
	NonFIFO       bool      `json:"nonFifo,omitempty"`       // links may reorder their messages
	CallTimeoutMs int       `json:"callTimeoutMs,omitempty"` // context deadline of every call (0: none)
}

func genC04(seed uint64, tier string) C04Cfg {
	r := prng.Derive(seed, "cfg")
	maxN := 4
	if tier == "thorough" {
		maxN = 5
	}
	n := r.Range(2, maxN)
	if r.Bool(0.15) {
		n = 5
	}
	var ids []uint16
	for i := 1; i <= n; i++ {
		ids = append(ids, uint16(i))
	}
	if prng.Derive(seed, "wide-ids").Bool(0.25) {
		ids = wideIDs(prng.Derive(seed, "wide-ids/draw"), n)
	}
	c := C04Cfg{N: n, T: r.Range(1, n), Late: -1, Topic: fmt.Sprintf("topic-%d", r.Intn(1000))}
	c.Deploy = DeployCfg{IDs: ids, Silent: r.Bool(0.4), Threshold: r.Range(1, n-1), Backend: "scripted"}
	c.Deploy.SP = genScriptedParams(r, 4)
	c.Deploy.SignSP = genScriptedParams(r, 3)
	c.Deploy.PickUnsorted = r.Bool(0.3)
	c.Strategy = pickStr(r, netsim.Strategies)
	if r.Bool(0.35) {
		c.Strategy = "acks-first"
	}
	c.Serial = r.Bool(0.8)
	c.Op = pickStr(r, []string{"keygen", "keygen", "sign", "both"})
	if r.Bool(0.5) {
		c.Late = r.Intn(n)
	}
	// the statement quantifies over every interleaving of deliveries: a quarter of the runs also let a link
	// reorder its own messages (an application may dispatch each incoming message on its own goroutine)
	c.NonFIFO = r.Bool(0.25)
	// a fifth of the runs: party identifiers that are a rotation of the node identifiers (an injective map in which
	// every party id is some OTHER node's id: whatever confuses the two identifier spaces addresses a third node)
	if rm := prng.Derive(seed, "rotated-map"); rm.Bool(0.2) && n >= 2 {
		c.Deploy.PIDs = map[uint16]uint16{}
		k := 1 + rm.Intn(n-1)
		for i, id := range ids {
			c.Deploy.PIDs[id] = ids[(i+k)%n]
		}
	}
	// a third of the runs: classification of some messages takes simulated time, so that the handling of
	// messages of different links (and local calls, e.g. the late starter's first send) overlaps
	if rd := prng.Derive(seed, "classify-delay"); rd.Bool(0.35) {
		d := rd.Range(1, 30)
		c.Deploy.SP.ClassifyDelayMs = d
		c.Deploy.SignSP.ClassifyDelayMs = d
	}
	return c
}

// totality compares the hand-off log of one session (all backend instances whose
// label starts with prefix) with what the participants' backends emitted.
func totality(events []scripted.Event, prefix string, pidOf map[uint16]uint16) (problems []string, handoffs int) {
	type ho struct {
		n     int
		bcast bool
		from  uint16
	}
	participants := map[uint16]bool{}
	for _, e := range events {
		if strings.HasPrefix(e.Instance, prefix) && e.Kind == "init" {
			participants[e.Node] = true
		}
	}
	got := map[uint16]map[string]*ho{} // node -> payload -> hand-offs
	for _, e := range events {
		if !strings.HasPrefix(e.Instance, prefix) || e.Kind != "onmsg" {
			continue
		}
		if got[e.Node] == nil {
			got[e.Node] = map[string]*ho{}
		}
		h := got[e.Node][string(e.Payload)]
		if h == nil {
			h = &ho{bcast: e.Bcast, from: e.From}
			got[e.Node][string(e.Payload)] = h
		}
		h.n++
		handoffs++
		if h.bcast != e.Bcast || h.from != e.From {
			problems = append(problems, fmt.Sprintf("node %d: same payload handed over with differing attribution", e.Node))
		}
	}
	matched := map[uint16]map[string]bool{}
	mark := func(node uint16, p string) {
		if matched[node] == nil {
			matched[node] = map[string]bool{}
		}
		matched[node][p] = true
	}
	for _, e := range events {
		if !strings.HasPrefix(e.Instance, prefix) || e.Kind != "send" {
			continue
		}
		hdr, _ := scripted.Decode(e.Payload)
		for _, b := range sortedU16(participants) {
			if b == e.Node {
				continue
			}
			h := got[b][string(e.Payload)]
			cnt := 0
			if h != nil {
				cnt = h.n
			}
			want := 0
			if e.Bcast || pidOf[b] == e.To {
				want = 1
			}
			if cnt != want {
				kind := "p2p"
				if e.Bcast {
					kind = "broadcast"
				}
				problems = append(problems, fmt.Sprintf("%s round %d seq %d of node %d: handed to node %d %d times, want %d", kind, hdr.Round, hdr.Seq, e.Node, b, cnt, want))
				continue
			}
			if h != nil {
				mark(b, string(e.Payload))
				if h.bcast != e.Bcast {
					problems = append(problems, fmt.Sprintf("round %d of node %d handed to %d with broadcast=%v, emitted with %v", hdr.Round, e.Node, b, h.bcast, e.Bcast))
				}
				if h.from != pidOf[e.Node] {
					problems = append(problems, fmt.Sprintf("round %d of node %d (party %d) handed to %d attributed to %d", hdr.Round, e.Node, pidOf[e.Node], b, h.from))
				}
			}
		}
	}
	for node, m := range got {
		for p := range m {
			if !matched[node][p] {
				problems = append(problems, fmt.Sprintf("node %d was handed a message nobody emitted for it (len %d)", node, len(p)))
			}
		}
	}
	return problems, handoffs
}

// SessOut is what a fault-free session run leaves behind for the oracles.
type SessOut struct {
	W       *netsim.World
	D       *Deployment
	OK      bool // every phase finished and every call returned nil
	Stored  map[uint16][]byte
	Calls   []*netsim.Call
	Signers []uint16
}

// runSession executes KeyGen and/or Sign among the nodes of cfg inside the
// current bubble, under the scheduler of spec, until everything is drained.
// Violations of "a fault-free session finishes" are appended to res under the
// invariant prefix inv.
func runSession(spec RunSpec, cfg C04Cfg, inv string, res *RunResult, setup func(d *Deployment)) (*SessOut, *netsim.ScriptSched) {
	return runSessionX(spec, cfg, nil, inv, res, res, setup)
}

// runSessionWith lets only `invokers` call KeyGen (every node of cfg.Deploy.IDs
// exists); session violations go to res, the trace configuration comes from top.
func runSessionWith(spec RunSpec, cfg C04Cfg, invokers []uint16, inv string, res *RunResult, top *RunResult) (*SessOut, *netsim.ScriptSched) {
	return runSessionX(spec, cfg, invokers, inv, res, top, nil)
}

func runSessionX(spec RunSpec, cfg C04Cfg, invokers []uint16, inv string, res *RunResult, top *RunResult, setup func(d *Deployment)) (*SessOut, *netsim.ScriptSched) {
	w := netsim.NewWorld(spec.Seed)
	w.Serial = cfg.Serial
	w.NonFIFO = cfg.NonFIFO
	trace(spec, top.Cfg, w)
	d := NewDeployment(w, cfg.Deploy)
	if setup != nil {
		setup(d)
	}
	d.Build()
	if invokers == nil {
		invokers = cfg.Deploy.IDs
	}
	out := &SessOut{W: w, D: d, Stored: map[uint16][]byte{}}
	sched, ss := scheduler(spec, cfg.Strategy)
	lim := netsim.RunLimits{MaxSteps: 200000, Horizon: 30 * time.Minute, FairAfterSteps: 6000, FairAfter: 2 * time.Minute}
	viol := func(i, class, detail string) {
		res.Violations = append(res.Violations, netsim.Violation{Invariant: i, Class: class, Detail: detail})
	}
	r := prng.Derive(spec.Seed, "workload")
	phase := func(name string, st *starter) bool {
		w.Propose = st.proposals
		v := w.Run(sched, lim, func() bool { return st.allDone(w) && quiet(w) })
		w.Propose = nil
		out.Calls = append(out.Calls, st.calls()...)
		if v != nil {
			res.Violations = append(res.Violations, *v)
			return false
		}
		if w.PanicCount() > 0 {
			return false
		}
		if !(st.allDone(w) && quiet(w)) {
			viol(inv+"/stalled", inv+"/stalled/"+name, fmt.Sprintf("fault-free %s did not finish under a fair schedule: %s queued=%d stuck=%v log=%s", name, callSummary(st.calls()), w.QueuedTotal(), w.Stuck(), d.Log.Summary("WE")))
			return false
		}
		for _, c := range st.calls() {
			if c.Err != nil {
				viol(inv+"/call-failed", inv+"/call-failed/"+name, fmt.Sprintf("fault-free %s: %s log=%s", name, callSummary(st.calls()), d.Log.Summary("WE")))
				return false
			}
		}
		return true
	}
	weight := func(i int) float64 {
		if i == cfg.Late {
			return 0.01
		}
		return 3
	}
	ok := true
	if cfg.Op == "keygen" || cfg.Op == "both" {
		st := &starter{}
		for i, id := range invokers {
			st.add(fmt.Sprintf("start:kg:%d", id), id, weight(i), startKeyGen(d, id, cfg.N, cfg.T, time.Duration(cfg.CallTimeoutMs)*time.Millisecond))
		}
		ok = phase("keygen", st)
		for _, c := range st.calls() {
			out.Stored[c.Node] = c.Out
		}
	}
	if ok && (cfg.Op == "sign" || cfg.Op == "both") {
		signers := cfg.Signers
		if signers == nil {
			signers = signersFor(d, r, cfg.Topic)
		}
		out.Signers = signers
		var parties []uint16
		for _, id := range invokers {
			parties = append(parties, d.Cfg.PIDs[id])
		}
		st := &starter{}
		for i, id := range signers {
			sd := out.Stored[id]
			if sd == nil {
				sd = fabricatedStored(parties, cfg.T, d.Cfg.PIDs[id])
			}
			d.Parties[id].SetStoredData(sd)
			st.add(fmt.Sprintf("start:sg:%d", id), id, weight(i), startSign(d, id, sha([]byte("digest")), cfg.Topic, time.Duration(cfg.CallTimeoutMs)*time.Millisecond))
		}
		ok = phase("sign", st)
	}
	res.Violations = append(res.Violations, panicViolations(w, inv+"/panic")...)
	out.OK = ok && len(res.Violations) == 0
	return out, ss
}

func runC04(t *testing.T, spec RunSpec) *RunResult {
	var cfg C04Cfg
	if spec.Cfg != nil {
		if err := json.Unmarshal(spec.Cfg, &cfg); err != nil {
			panic(err)
		}
	} else {
		cfg = genC04(spec.Seed, spec.Tier)
	}
	res := &RunResult{Property: "C04", Seed: spec.Seed, Cfg: mustJSON(cfg), Strategy: cfg.Strategy}
	mode := "loud"
	if cfg.Deploy.Silent {
		mode = "silent"
	}
	res.ConfigKey = fmt.Sprintf("n=%d %s %s serial=%v", cfg.N, mode, cfg.Op, cfg.Serial)
	bubble(t, func() {
		out, ss := runSession(spec, cfg, "C04", res, nil)
		w, d := out.W, out.D
		if out.OK {
			ev := d.Rec.Snapshot()
			total := 0
			for _, prefix := range []string{"kg", "sg"} {
				probs, n := totality(ev, prefix, d.Cfg.PIDs)
				total += n
				if len(probs) > 0 {
					res.Violations = append(res.Violations, netsim.Violation{Invariant: "C04/totality", Class: "C04/totality", Detail: strings.Join(probs, "; ")})
				}
			}
			if n := d.Log.Count("Detected conflicting digests") + d.Log.Count("Equivocation detected"); n > 0 {
				res.Violations = append(res.Violations, netsim.Violation{Invariant: "C04/false-equivocation", Class: "C04/false-equivocation", Detail: fmt.Sprintf("%d equivocation conclusions among honest parties", n)})
			}
			w.Probes["handoffs"] = total
		}
		abp := acksBeforePayload(w)
		w.Probes["ack-before-payload"] = abp
		res.Nontrivial = abp > 0
		d.Teardown()
		fillResult(res, w, ss)
	})
	return res
}

func init() {
	register(&Check{ID: "C04", Run: runC04})
}
