package checks

import (
	"bytes"
	"encoding/json"
	"fmt"
	"testing"
	"time"

	"verif/sim/netsim"
	"verif/sim/prng"

	"github.com/IBM/TSS/mpc/ps"
)

// C08 — threshold blind PS signatures are complete (DKG through the full stack,
// then the documented Blind / Sign / UnBlind / PoK / Verify flow).

type C08Cfg struct {
	Deploy   DeployCfg `json:"deploy"`
	Strategy string    `json:"strategy"`
	Serial   bool      `json:"serial"`
	N        int       `json:"n"`
	T        int       `json:"t"`
	Late     int       `json:"late"`
	MsgLen   int       `json:"msgLen"`
	NonFIFO  bool      `json:"nonFIFO,omitempty"` // links may reorder their own protocol messages (a reconnect between two sends, a dispatcher per message)
	// DirectOrder, when set: the PS key generators are used directly (no orchestrator), with the party list handed to
	// every Init - and to the prover - in exactly this order, which need not be ascending
	DirectOrder []uint16 `json:"directOrder,omitempty"`
	// Part, when set: the nodes that generate the key, a subset of the membership Deploy.IDs (sparse identifiers)
	Part []uint16 `json:"part,omitempty"`
}

func genC08(seed uint64, tier string) C08Cfg {
	r := prng.Derive(seed, "cfg")
	maxN, maxL := 4, 4
	if tier == "thorough" {
		maxN, maxL = 5, 6
	}
	n := r.Range(2, maxN)
	var ids []uint16
	for i := 1; i <= n; i++ {
		ids = append(ids, uint16(i))
	}
	c := C08Cfg{N: n, T: r.Range(2, n), Late: -1, MsgLen: r.Range(1, maxL)}
	c.Deploy = DeployCfg{IDs: ids, Silent: r.Bool(0.5), Threshold: c.T - 1, Backend: "ps", PSMsgLen: c.MsgLen, PickUnsorted: r.Bool(0.3)}
	c.Strategy = pickStr(r, netsim.Strategies)
	c.Serial = r.Bool(0.8)
	if r.Bool(0.4) {
		c.Late = r.Intn(n)
	}
	if r.Bool(0.5) {
		c.Deploy.IDs, c.Part, c.Deploy.PickFixed = sparseMembership(r, n, c.Deploy.Silent, c.Deploy.PickUnsorted)
	}
	if rd := prng.Derive(seed, "real-init-delay"); rd.Bool(0.2) {
		c.Deploy.RealInitDelayMs = rd.Range(1, 40)
	}
	c.NonFIFO = prng.Derive(seed, "non-fifo").Bool(0.25)
	if rd := prng.Derive(seed, "direct-order"); rd.Bool(0.15) {
		part := c.Part
		if part == nil {
			part = c.Deploy.IDs
		}
		c.DirectOrder = append([]uint16(nil), part...)
		for i := len(c.DirectOrder) - 1; i > 0; i-- {
			j := rd.Intn(i + 1)
			c.DirectOrder[i], c.DirectOrder[j] = c.DirectOrder[j], c.DirectOrder[i]
		}
	}
	return c
}

// genMessages returns message vectors of the configured length: empty, equal,
// one byte, long and random entries.
func genMessages(r *prng.Rand, l int, count int) [][][]byte {
	var out [][][]byte
	for k := 0; k < count; k++ {
		m := make([][]byte, l)
		for i := range m {
			switch (k + r.Intn(5)) % 5 {
			case 0:
				m[i] = []byte{}
			case 1:
				m[i] = []byte("same")
			case 2:
				m[i] = []byte{byte(r.Intn(256))}
			case 3:
				m[i] = r.Bytes(300)
			default:
				m[i] = r.Bytes(r.Range(1, 40))
			}
		}
		out = append(out, m)
	}
	// all entries equal, all entries empty
	eq := make([][]byte, l)
	em := make([][]byte, l)
	for i := range eq {
		eq[i] = []byte("x")
		em[i] = []byte{}
	}
	return append(out, eq, em)
}

// psOracle runs the documented flow for the parties in `signers` (a subset of
// `all`, whose stored data is given) and every subset of them of size >= t.
func psOracle(all []uint16, signers []uint16, t int, msgLen int, shares map[uint16][]byte, r *prng.Rand, lg ps.Logger, nMsgs int) (problem string, subsetsChecked int) {
	defer func() {
		if rec := recover(); rec != nil {
			problem = fmt.Sprintf("panic in the documented PS flow: %v", rec)
		}
	}()
	tps := map[uint16]*ps.TPS{}
	var tpk0 []byte
	for _, id := range signers {
		s := &ps.TPS{Logger: lg, Party: id, Curve: PSCurve, MessageLength: msgLen}
		s.Init(all, t, nil)
		if err := s.SetShareData(shares[id]); err != nil {
			return fmt.Sprintf("party %d: stored data does not load: %v", id, err), 0
		}
		tpk, err := s.ThresholdPK()
		if err != nil {
			return fmt.Sprintf("party %d: ThresholdPK: %v", id, err), 0
		}
		if tpk0 == nil {
			tpk0 = tpk
		} else if !bytes.Equal(tpk0, tpk) {
			return fmt.Sprintf("public material differs between party %d and party %d", signers[0], id), 0
		}
		tps[id] = s
	}
	reqBuf := make([]byte, 0, 16384)
	for mi, msg := range genMessages(r, msgLen, nMsgs) {
		var prover ps.Prover
		if err := prover.Init(PSCurve, msgLen, tpk0, all); err != nil {
			return fmt.Sprintf("Prover.Init: %v", err), subsetsChecked
		}
		blind, secret := prover.Blind(msg)
		wit := map[uint16]ps.SignatureWitness{}
		reqBuf = append(reqBuf[:0], blind.Bytes()...) // one request buffer, overwritten for every message
		for _, id := range signers {
			sig, err := tps[id].Sign(nil, reqBuf)
			if err != nil {
				return fmt.Sprintf("message #%d: party %d refuses a well-formed blinded request: %v", mi, id, err), subsetsChecked
			}
			w, err := prover.UnBlind(id, sig, &secret)
			if err != nil {
				return fmt.Sprintf("message #%d: partial signature of party %d does not unblind to a valid witness: %v", mi, id, err), subsetsChecked
			}
			wit[id] = w
		}
		orderTurn := mi
		subsets(signers, t, func(sub []uint16) {
			if problem != "" {
				return
			}
			// the signers reach the prover in the order in which their partial signatures arrived, which need not
			// be ascending: every third subset is handed over reversed, every third rotated by one
			sub = append([]uint16(nil), sub...)
			switch orderTurn++; orderTurn % 3 {
			case 1:
				for i, j := 0, len(sub)-1; i < j; i, j = i+1, j-1 {
					sub[i], sub[j] = sub[j], sub[i]
				}
			case 2:
				sub = append(sub[1:], sub[0])
			}
			var ws []ps.SignatureWitness
			for _, id := range sub {
				ws = append(ws, wit[id])
			}
			pok := prover.ProveKnowledgeOfSignature(&secret, sub, ws)
			var v ps.Verifier
			if err := v.Init(PSCurve, msgLen, tpk0); err != nil {
				problem = fmt.Sprintf("Verifier.Init: %v", err)
				return
			}
			if err := v.Verify(pok.Bytes()); err != nil {
				problem = fmt.Sprintf("message #%d: proof of knowledge from signers %v does not verify under the threshold key: %v", mi, sub, err)
				return
			}
			subsetsChecked++
		})
		if problem != "" {
			return
		}
	}
	return "", subsetsChecked
}

func runC08(t *testing.T, spec RunSpec) *RunResult {
	var cfg C08Cfg
	if spec.Cfg != nil {
		if err := json.Unmarshal(spec.Cfg, &cfg); err != nil {
			panic(err)
		}
	} else {
		cfg = genC08(spec.Seed, spec.Tier)
	}
	res := &RunResult{Property: "C08", Seed: spec.Seed, Cfg: mustJSON(cfg), Strategy: cfg.Strategy}
	mode := "loud"
	if cfg.Deploy.Silent {
		mode = "silent"
	}
	part, ids := cfg.Part, "ids=1..n"
	if part == nil {
		part = cfg.Deploy.IDs
	} else {
		ids = fmt.Sprintf("ids=sparse members=n+%d", len(cfg.Deploy.IDs)-cfg.N)
	}
	res.ConfigKey = fmt.Sprintf("ps n=%d t=%d L=%d %s %s nonfifo=%v", cfg.N, cfg.T, cfg.MsgLen, mode, ids, cfg.NonFIFO)
	restore := seedCryptoRand(spec.Seed)
	defer restore()
	if cfg.DirectOrder != nil {
		res.ConfigKey = fmt.Sprintf("ps n=%d t=%d L=%d direct-api shuffled-party-list", len(cfg.DirectOrder), cfg.T, cfg.MsgLen)
		var dshares map[uint16][]byte
		var dlg *CountLogger
		bubble(t, func() {
			w := netsim.NewWorld(spec.Seed)
			w.Serial = true
			w.NonFIFO = cfg.NonFIFO
			trace(spec, res.Cfg, w)
			dlg = NewCountLogger()
			var calls []*netsim.Call
			var ss *netsim.ScriptSched
			dshares, calls, ss = runDirectDKG(spec, w, "ps", cfg.DirectOrder, cfg.T, cfg.MsgLen, cfg.Strategy, dlg)
			res.Violations = append(res.Violations, panicViolations(w, "C08/panic")...)
			if len(dshares) != len(cfg.DirectOrder) && len(res.Violations) == 0 {
				res.Violations = append(res.Violations, netsim.Violation{Invariant: "C08/keygen-failed", Class: "C08/keygen-failed", Detail: fmt.Sprintf("fault-free PS key generation with the party list %v did not complete everywhere: %s", cfg.DirectOrder, callSummary(calls))})
			}
			res.Nontrivial = true
			fillResult(res, w, ss)
		})
		if len(res.Violations) == 0 {
			prob, n := psOracle(cfg.DirectOrder, cfg.DirectOrder, cfg.T, cfg.MsgLen, dshares, prng.Derive(spec.Seed, "messages"), dlg, 2)
			res.Probes["subsets-verified"] = n
			if prob != "" {
				res.Violations = append(res.Violations, netsim.Violation{Invariant: "C08/ps-flow", Class: "C08/ps-flow", Detail: fmt.Sprintf("party list %v: %s", cfg.DirectOrder, prob)})
			}
		}
		return res
	}
	shares := map[uint16][]byte{}
	var lg *CountLogger
	completed := false
	bubble(t, func() {
		w := netsim.NewWorld(spec.Seed)
		w.Serial = cfg.Serial
		w.NonFIFO = cfg.NonFIFO
		trace(spec, res.Cfg, w)
		d := NewDeployment(w, cfg.Deploy)
		d.Build()
		lg = d.Log
		sched, ss := scheduler(spec, cfg.Strategy)
		lim := netsim.RunLimits{MaxSteps: 200000, Horizon: 30 * time.Minute, FairAfterSteps: 6000, FairAfter: 2 * time.Minute}
		st := &starter{}
		for i, id := range part {
			wgt := 3.0
			if i == cfg.Late {
				wgt = 0.01
			}
			st.add(fmt.Sprintf("start:kg:%d", id), id, wgt, startKeyGen(d, id, cfg.N, cfg.T, 0))
		}
		w.Propose = st.proposals
		v := w.Run(sched, lim, func() bool { return st.allDone(w) && quiet(w) })
		if v != nil {
			res.Violations = append(res.Violations, *v)
		}
		res.Violations = append(res.Violations, panicViolations(w, "C08/panic")...)
		if st.allDone(w) {
			completed = true
			for _, c := range st.calls() {
				if c.Err != nil {
					completed = false
					res.Violations = append(res.Violations, netsim.Violation{Invariant: "C08/keygen-failed", Class: "C08/keygen-failed", Detail: "fault-free PS key generation returned an error: " + callSummary(st.calls())})
					break
				}
				shares[c.Node] = c.Out
			}
		} else if len(res.Violations) == 0 {
			res.Violations = append(res.Violations, netsim.Violation{Invariant: "C08/no-progress", Class: "C08/no-progress", Detail: "fault-free PS key generation did not complete under a fair schedule: " + callSummary(st.calls()) + " log=" + d.Log.Summary("WE")})
		}
		inv, last := 0, -1
		for _, m := range w.Delivered {
			if m.ID < last {
				inv++
			}
			if m.ID > last {
				last = m.ID
			}
		}
		w.Probes["cross-link-inversions"] = inv
		res.Nontrivial = inv > 0
		d.Teardown()
		fillResult(res, w, ss)
	})
	if completed && len(res.Violations) == 0 {
		prob, n := psOracle(part, part, cfg.T, cfg.MsgLen, shares, prng.Derive(spec.Seed, "messages"), lg, 2)
		res.Probes["subsets-verified"] = n
		if prob != "" {
			res.Violations = append(res.Violations, netsim.Violation{Invariant: "C08/ps-flow", Class: "C08/ps-flow", Detail: prob})
		}
	}
	return res
}

func init() {
	register(&Check{ID: "C08", Run: runC08})
}
