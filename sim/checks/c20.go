package checks

import (
	"encoding/json"
	"strings"
	"testing"

	"verif/sim/netsim"
	"verif/sim/prng"
)

// C20 — concurrent use of the public API is free of data races.
//
// The worker is built with -race; the scenarios of C05 (deviating DKG
// participant: early, duplicated, out-of-phase protocol messages), C12
// (overlapping sessions on several topics) and C01/C08 (honest DKG) are run with
// concurrent dispatch: several deliveries into the same node in one step, each
// on its own goroutine, as one reader goroutine per peer connection would do.
// The oracle is the Go race detector (happens-before based: a race is reported
// whenever two conflicting accesses are unordered in the explored execution).

type C20Cfg struct {
	Kind string          `json:"kind"` // dkg-byz | sessions
	Sub  json.RawMessage `json:"sub"`
}

func genC20(seed uint64, index int, tier string) C20Cfg {
	r := prng.Derive(seed, "cfg20")
	if r.Bool(0.7) {
		c := genC05(seed, index, tier)
		// the deviations that put early / duplicated / out-of-phase messages in front of honest parties
		devs := []string{"early-reveal", "early-reveal", "duplicate", "late-share", "second-commit", "none", "none", "withhold", "malformed"}
		c.Deviation = devs[r.Intn(len(devs))]
		c.Concurrent = true
		c.Deploy.QuietLog, c.Deploy.QuietRec = true, true
		c.Strategy = pickStr(r, []string{"uniform", "bursty", "lifo-links", "starve-node", "acks-first", "pct"})
		// a third of these runs: an honest party's call gives up (its context is cancelled) in the very step in which a
		// protocol message is dispatched into it
		if rc := prng.Derive(seed, "cancel-joined"); rc.Bool(0.33) {
			for _, id := range c.Deploy.IDs {
				if id != c.Culprit {
					c.CancelNode = id
					if rc.Bool(0.5) {
						break
					}
				}
			}
			c.CancelAfter = rc.Range(1, 40)
		}
		return C20Cfg{Kind: "dkg-byz", Sub: mustJSON(c)}
	}
	c := genC12(seed, tier)
	c.Serial = false
	c.Deploy.QuietLog, c.Deploy.QuietRec = true, true
	// half of the histories (of 3 or more nodes) begin with a signing session that gets a member too many
	if len(c.Deploy.IDs) >= 3 && r.Bool(0.5) {
		if c.Deploy.Threshold+1 >= len(c.Deploy.IDs) {
			c.Deploy.Threshold = len(c.Deploy.IDs) - 2
		}
		c.Phases = append([]C12Phase{{Kind: "sg-extra", Topics: []string{"omega"}, Outsider: r.Bool(0.3)}}, c.Phases...)
	}
	return C20Cfg{Kind: "sessions", Sub: mustJSON(c)}
}

func runC20(t *testing.T, spec RunSpec) *RunResult {
	var cfg C20Cfg
	if spec.Cfg != nil {
		if err := json.Unmarshal(spec.Cfg, &cfg); err != nil {
			panic(err)
		}
	} else {
		cfg = genC20(spec.Seed, spec.Index, spec.Tier)
	}
	sub := spec
	sub.Cfg = cfg.Sub
	sub.TraceFile = "" // the sub-run would write its own configuration; C20 traces below
	var res *RunResult
	top := mustJSON(cfg)
	if spec.TraceFile != "" {
		// first line of the trace = C20's own configuration; actions are appended by the sub-run's world
		sub.TraceFile = spec.TraceFile
		traceCfgOverride = top
		defer func() { traceCfgOverride = nil }()
	}
	if cfg.Kind == "dkg-byz" {
		res = runC05(t, sub)
	} else {
		res = runC12(t, sub)
	}
	res.Property = "C20"
	res.Cfg = top
	res.ConfigKey = cfg.Kind + " " + res.ConfigKey
	// logical verdicts belong to C05/C12 (and are order-dependent under concurrent dispatch); keep panics only
	var keep []netsim.Violation
	for _, v := range res.Violations {
		if strings.HasPrefix(v.Class, "panic/") {
			v.Invariant = "C20/panic"
			keep = append(keep, v)
		}
	}
	res.Violations = keep
	res.Nontrivial = res.Probes["concurrent-dispatch"] > 0
	return res
}

func init() {
	register(&Check{ID: "C20", Run: runC20})
}
