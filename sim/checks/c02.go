package checks

import (
	"encoding/json"
	"fmt"
	"sort"
	"strings"
	"testing"
	"time"

	"verif/sim/netsim"
	"verif/sim/prng"
	"verif/sim/scripted"
)

// C02 (agreement) and C03 (integrity) of the reliable broadcast, through the
// real orchestrator, under a Byzantine NIC.

type ByzCfg struct {
	Sess     C04Cfg   `json:"sess"`
	Invokers []uint16 `json:"invokers"`
	Byz      []uint16 `json:"byz"`
	Outsider []uint16 `json:"outsider"`
	Kinds    []string `json:"kinds"`
	Budget   int      `json:"budget"`
	Rate     uint64   `json:"rate"`
	// Collude: two Byzantine participants mirror each other (see Adversary.Collude)
	Collude []uint16 `json:"collude,omitempty"`
}

var byzKinds = []string{"byz-equivocate", "byz-forge-ack", "byz-replay", "byz-mutate", "byz-withhold-selective", "outsider"}

func genByz(seed uint64, tier string, honestOnlySometimes bool) ByzCfg {
	r := prng.Derive(seed, "cfg")
	maxN := 4
	if tier == "thorough" {
		maxN = 6
	}
	n := r.Range(3, maxN)
	if r.Bool(0.45) {
		n = 3
	}
	var ids []uint16
	for i := 1; i <= n; i++ {
		ids = append(ids, uint16(i))
	}
	universe := append([]uint16(nil), ids...)
	var outsiders []uint16
	if r.Bool(0.5) {
		o := uint16(n + 1)
		universe = append(universe, o) // configured member that takes no part
		outsiders = append(outsiders, o)
	}
	if r.Bool(0.3) {
		outsiders = append(outsiders, uint16(200+r.Intn(50))) // not in the membership at all
	}
	nb := r.Range(1, n-2)
	if honestOnlySometimes && r.Bool(0.15) {
		nb = 0
	}
	perm := r.Perm(n)
	var byz []uint16
	for _, i := range perm[:nb] {
		byz = append(byz, ids[i])
	}
	sort.Slice(byz, func(i, j int) bool { return byz[i] < byz[j] })
	s := C04Cfg{N: n, T: r.Range(1, n), Late: -1, Topic: fmt.Sprintf("topic-%d", r.Intn(1000))}
	s.Deploy = DeployCfg{IDs: universe, PIDs: identityPIDs(universe), Silent: r.Bool(0.3), Threshold: n - 1, Backend: "scripted"}
	s.Deploy.SP = genScriptedParams(r, 3)
	s.Deploy.SignSP = genScriptedParams(r, 3)
	s.Deploy.SP.Bcast = r.Range(1, 2)
	s.Deploy.SignSP.Bcast = r.Range(1, 2)
	s.Deploy.PickFixed = append([]uint16(nil), ids...)
	s.Strategy = pickStr(r, netsim.Strategies)
	s.Serial = true
	s.Op = pickStr(r, []string{"keygen", "sign"})
	s.Signers = ids
	s.CallTimeoutMs = 15000 + r.Intn(2000)
	if r.Bool(0.3) {
		s.Late = r.Intn(n)
	}
	c := ByzCfg{Sess: s, Invokers: ids, Byz: byz, Outsider: outsiders, Budget: r.Range(2, 14), Rate: uint64(r.Range(2, 8))}
	// swarm: a random non-empty subset of the fault kinds, biased towards the pair that matters most
	for _, k := range byzKinds {
		if r.Bool(0.55) {
			c.Kinds = append(c.Kinds, k)
		}
	}
	if r.Bool(0.4) {
		c.Kinds = []string{"byz-equivocate", "byz-forge-ack"}
	}
	if len(c.Kinds) == 0 {
		c.Kinds = []string{"byz-replay"}
	}
	if rc := prng.Derive(seed, "collude"); rc.Bool(0.2) {
		colludeCfg(&c, rc, tier)
	}
	return c
}

// colludeCfg turns the configuration into a session of n = 4..5 (thorough ..6) with exactly two Byzantine
// participants that mirror each other, over identifiers that are easy to mistake for one another in 3 of 4 runs
// (equal low bytes, equal high bytes, one bit apart).
func colludeCfg(c *ByzCfg, r *prng.Rand, tier string) {
	n := 4
	if r.Bool(0.3) {
		n = 5
	}
	if tier == "thorough" && r.Bool(0.2) {
		n = 6
	}
	var b1, b2 uint16
	switch r.Intn(4) {
	case 0: // same low byte
		lo := uint16(r.Intn(256))
		h1 := uint16(r.Intn(256))
		h2 := uint16(r.Intn(256))
		for h2 == h1 {
			h2 = uint16(r.Intn(256))
		}
		b1, b2 = h1<<8|lo, h2<<8|lo
	case 1: // same high byte
		hi := uint16(r.Intn(256))
		l1 := uint16(r.Intn(256))
		l2 := uint16(r.Intn(256))
		for l2 == l1 {
			l2 = uint16(r.Intn(256))
		}
		b1, b2 = hi<<8|l1, hi<<8|l2
	case 2: // one bit apart
		b1 = uint16(r.Intn(65536))
		b2 = b1 ^ (1 << uint(r.Intn(16)))
	default:
		b1, b2 = 1, 2
	}
	seen := map[uint16]bool{b1: true, b2: true}
	ids := []uint16{b1, b2}
	for len(ids) < n {
		var id uint16
		if r.Bool(0.5) {
			id = uint16(r.Intn(65536))
		} else {
			id = uint16(r.Range(1, 12))
		}
		if !seen[id] {
			seen[id] = true
			ids = append(ids, id)
		}
	}
	sort.Slice(ids, func(i, j int) bool { return ids[i] < ids[j] })
	if r.Bool(0.5) {
		b1, b2 = b2, b1
	}
	c.Sess.N = n
	c.Sess.T = r.Range(1, n)
	c.Sess.Late = -1
	c.Sess.Deploy.IDs = append([]uint16(nil), ids...)
	c.Sess.Deploy.PIDs = identityPIDs(ids)
	c.Sess.Deploy.Threshold = n - 1
	c.Sess.Deploy.PickFixed = append([]uint16(nil), ids...)
	c.Sess.Signers = ids
	c.Invokers = ids
	c.Outsider = nil
	c.Byz = []uint16{b1, b2}
	if b1 > b2 {
		c.Byz = []uint16{b2, b1}
	}
	c.Collude = []uint16{b1, b2}
	c.Kinds = []string{"byz-collude"}
}

type byzRun struct {
	w      *netsim.World
	d      *Deployment
	adv    *Adversary
	calls  []*netsim.Call
	honest []uint16
	topics map[string]string // topic hash -> instance prefix
}

// runByz executes one session with Byzantine participants inside the current bubble.
func runByz(spec RunSpec, cfg ByzCfg, res *RunResult) (*byzRun, *netsim.ScriptSched) {
	w := netsim.NewWorld(spec.Seed)
	w.Serial = cfg.Sess.Serial
	trace(spec, res.Cfg, w)
	d := NewDeployment(w, cfg.Sess.Deploy)
	d.Build()
	br := &byzRun{w: w, d: d, topics: map[string]string{}}
	isByz := map[uint16]bool{}
	for _, b := range cfg.Byz {
		isByz[b] = true
	}
	for _, id := range cfg.Invokers {
		if !isByz[id] {
			br.honest = append(br.honest, id)
		}
	}
	topic := sha([]byte("DKG"))
	prefix := "kg"
	if cfg.Sess.Op == "sign" {
		topic = sha([]byte(cfg.Sess.Topic))
		prefix = "sg"
	}
	br.topics[string(topic)] = prefix
	kinds := map[string]bool{}
	for _, k := range cfg.Kinds {
		kinds[k] = true
	}
	adv := &Adversary{W: w, Seed: spec.Seed, Byz: isByz, Honest: br.honest, Outsider: cfg.Outsider, Topics: map[string]bool{string(topic): true}, Kinds: kinds, Budget: cfg.Budget, Rate: cfg.Rate}
	if len(cfg.Collude) == 2 {
		adv.Collude = &[2]uint16{cfg.Collude[0], cfg.Collude[1]}
	}
	br.adv = adv
	w.Filter = adv.Filter
	sched, ss := scheduler(spec, cfg.Sess.Strategy)
	st := &starter{}
	timeout := time.Duration(cfg.Sess.CallTimeoutMs) * time.Millisecond
	var parties []uint16
	for _, id := range cfg.Invokers {
		parties = append(parties, d.Cfg.PIDs[id])
	}
	for i, id := range cfg.Invokers {
		wgt := 3.0
		if i == cfg.Sess.Late {
			wgt = 0.01
		}
		if cfg.Sess.Op == "sign" {
			d.Parties[id].SetStoredData(fabricatedStored(parties, cfg.Sess.T, d.Cfg.PIDs[id]))
			st.add(fmt.Sprintf("start:sg:%d", id), id, wgt, startSign(d, id, sha([]byte("digest")), cfg.Sess.Topic, timeout))
		} else {
			st.add(fmt.Sprintf("start:kg:%d", id), id, wgt, startKeyGen(d, id, cfg.Sess.N, cfg.Sess.T, timeout))
		}
	}
	w.Propose = func() []netsim.Proposal {
		ps := st.proposals()
		if st.allStarted() {
			ps = append(ps, adv.Proposals()...)
		}
		return ps
	}
	lim := netsim.RunLimits{MaxSteps: 100000, Horizon: 3 * time.Minute, FairAfterSteps: 5000, FairAfter: 40 * time.Second}
	v := w.Run(sched, lim, func() bool { return st.allDone(w) && quiet(w) })
	if v != nil {
		res.Violations = append(res.Violations, *v)
	}
	br.calls = st.calls()
	return br, ss
}

// honestHandoffs returns the broadcast and p2p hand-offs of honest parties.
func (br *byzRun) honestEvents(prefix string) []scripted.Event {
	isHonest := map[uint16]bool{}
	for _, h := range br.honest {
		isHonest[h] = true
	}
	var out []scripted.Event
	for _, e := range br.d.Rec.Snapshot() {
		if isHonest[e.Node] && strings.HasPrefix(e.Instance, prefix) {
			out = append(out, e)
		}
	}
	return out
}

func c02Oracle(br *byzRun, prefix string) []netsim.Violation {
	type k struct {
		from  uint16
		round uint8
	}
	first := map[k]scripted.Event{}
	for _, e := range br.honestEvents(prefix) {
		if e.Kind != "onmsg" || !e.Bcast {
			continue
		}
		round, _, err := scripted.Classify(e.Payload)
		if err != nil {
			continue
		}
		kk := k{e.From, round}
		if f, ok := first[kk]; ok {
			if string(f.Payload) != string(e.Payload) {
				return []netsim.Violation{{Invariant: "C02/agreement", Class: "C02/agreement", Detail: fmt.Sprintf("broadcast attributed to sender %d, round %d: honest party %d was handed %x…, honest party %d was handed %x… (session %s)", e.From, round, f.Node, f.Payload[:min(12, len(f.Payload))], e.Node, e.Payload[:min(12, len(e.Payload))], prefix)}}
			}
		} else {
			first[kk] = e
		}
	}
	return nil
}

func c03Oracle(br *byzRun, prefix string, topic []byte, participants []uint16) []netsim.Violation {
	isPart := map[uint16]bool{}
	for _, p := range participants {
		isPart[p] = true
	}
	// what every node really transmitted to every other node on this topic (post adversary)
	type lk struct {
		from, to uint16
		payload  string
	}
	sent := map[lk]int{}
	delivered := map[lk]int{}
	for _, m := range br.w.WireLog {
		if !isMPC(m) || string(m.Topic) != string(topic) {
			continue
		}
		wr, ok := ParseMPC(m.Data)
		if !ok || wr.IsAck {
			continue
		}
		sent[lk{m.From, m.To, string(wr.Payload)}]++
	}
	for _, m := range br.w.Delivered {
		if !isMPC(m) || string(m.Topic) != string(topic) {
			continue
		}
		wr, ok := ParseMPC(m.Data)
		if !ok || wr.IsAck {
			continue
		}
		delivered[lk{m.From, m.To, string(wr.Payload)}]++
	}
	type hk struct {
		node, from uint16
		round      uint8
	}
	bcount := map[hk]int{}
	pcount := map[lk]int{}
	v := func(class, detail string) []netsim.Violation {
		return []netsim.Violation{{Invariant: "C03/" + class, Class: "C03/" + class, Detail: detail + " (session " + prefix + ")"}}
	}
	for _, e := range br.honestEvents(prefix) {
		if e.Kind != "onmsg" {
			continue
		}
		if len(e.Payload) == 0 {
			return v("empty-handoff", fmt.Sprintf("party %d was handed an empty message attributed to %d", e.Node, e.From))
		}
		if !isPart[e.From] {
			return v("non-participant", fmt.Sprintf("party %d was handed a message attributed to %d, which is not a participant of the session %v", e.Node, e.From, participants))
		}
		if e.Bcast {
			if sent[lk{e.From, e.Node, string(e.Payload)}] == 0 {
				return v("not-transmitted", fmt.Sprintf("party %d was handed a broadcast attributed to %d that node %d never transmitted to it (%x…)", e.Node, e.From, e.From, e.Payload[:min(12, len(e.Payload))]))
			}
			round, _, _ := scripted.Classify(e.Payload)
			kk := hk{e.Node, e.From, round}
			bcount[kk]++
			if bcount[kk] > 1 {
				return v("duplicate-handoff", fmt.Sprintf("party %d was handed the broadcast of sender %d, round %d, %d times", e.Node, e.From, round, bcount[kk]))
			}
		} else {
			kk := lk{e.From, e.Node, string(e.Payload)}
			pcount[kk]++
			if pcount[kk] > delivered[kk] {
				return v("p2p-not-received", fmt.Sprintf("party %d was handed a point-to-point message attributed to %d %d times but received it %d times from that source", e.Node, e.From, pcount[kk], delivered[kk]))
			}
		}
	}
	return nil
}

func min(a, b int) int {
	if a < b {
		return a
	}
	return b
}

func runByzCheck(prop string) func(t *testing.T, spec RunSpec) *RunResult {
	return func(t *testing.T, spec RunSpec) *RunResult {
		var cfg ByzCfg
		if spec.Cfg != nil {
			if err := json.Unmarshal(spec.Cfg, &cfg); err != nil {
				panic(err)
			}
		} else {
			cfg = genByz(spec.Seed, spec.Tier, prop == "C03")
		}
		res := &RunResult{Property: prop, Seed: spec.Seed, Cfg: mustJSON(cfg), Strategy: cfg.Sess.Strategy}
		mode := "loud"
		if cfg.Sess.Deploy.Silent {
			mode = "silent"
		}
		res.ConfigKey = fmt.Sprintf("N=%d byz=%d outsiders=%d %s %s", cfg.Sess.N, len(cfg.Byz), len(cfg.Outsider), mode, cfg.Sess.Op)
		if len(cfg.Collude) == 2 {
			res.ConfigKey += " colluding-pair"
		}
		bubble(t, func() {
			br, ss := runByz(spec, cfg, res)
			w, d := br.w, br.d
			for topic, prefix := range br.topics {
				if prop == "C02" {
					res.Violations = append(res.Violations, c02Oracle(br, prefix)...)
				} else {
					res.Violations = append(res.Violations, c03Oracle(br, prefix, []byte(topic), cfg.Invokers)...)
				}
			}
			if prop == "C03" {
				// a nil placeholder reaches a type assertion in the orchestrator and panics
				for _, p := range w.Panics {
					if strings.Contains(p.Value, "interface conversion") && strings.Contains(p.Value, "nil") {
						res.Violations = append(res.Violations, netsim.Violation{Invariant: "C03/empty-handoff", Class: "C03/empty-handoff", Detail: fmt.Sprintf("a nil placeholder was handed to the backend hand-off of node %s: %s; message=%v", p.Where, p.Value, p.Msg)})
					} else {
						res.Violations = append(res.Violations, panicViolations(&netsim.World{Panics: []netsim.PanicRec{p}}, "C03/panic")...)
					}
				}
			}
			nHandoffs := 0
			for _, e := range br.honestEvents("") {
				if e.Kind == "onmsg" && e.Bcast {
					nHandoffs++
				}
			}
			w.Probes["honest-broadcast-handoffs"] = nHandoffs
			w.Probes["equivocation-halt"] = d.Log.Count("Detected conflicting digests")
			w.Probes["filter-rejected-outsider"] = d.Log.Count("but we expect only to receive messages from")
			injected := 0
			for k, n := range w.Faults {
				if strings.HasPrefix(k, "byz-") || strings.HasPrefix(k, "outsider") {
					injected += n
				}
			}
			res.Nontrivial = injected > 0 && nHandoffs > 0
			d.Teardown()
			fillResult(res, w, ss)
		})
		return res
	}
}

func init() {
	register(&Check{ID: "C02", Run: runByzCheck("C02")})
	register(&Check{ID: "C03", Run: runByzCheck("C03")})
}
