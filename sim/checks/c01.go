package checks

import (
	"bytes"
	"encoding/json"
	"fmt"
	"strings"
	"testing"
	"time"

	"verif/sim/netsim"
	"verif/sim/prng"

	"github.com/IBM/TSS/mpc/bls"
)

// C01 — threshold key agreement and signing correctness (BLS through the full stack).

type C01Cfg struct {
	Deploy   DeployCfg `json:"deploy"`
	Strategy string    `json:"strategy"`
	Serial   bool      `json:"serial"`
	N        int       `json:"n"`
	T        int       `json:"t"`
	Late     int       `json:"late"`
	// Part, when set, are the nodes that run the key generation (a subset of the membership Deploy.IDs;
	// identifiers need not be 1..n, node and party identifiers coincide)
	Part []uint16 `json:"part,omitempty"`
	// Adapter, when set, makes this run the orchestrated-signing half of the property:
	// KeyGen then Sign through a tss-lib adapter (EdDSA; ECDSA in the thorough tier).
	Adapter *AdapterCfg `json:"adapter,omitempty"`
}

func genC01(seed uint64, tier string) C01Cfg {
	r := prng.Derive(seed, "cfg")
	if prng.Derive(seed, "kind").Bool(0.06) {
		pE := 0.0
		if tier == "thorough" {
			pE = 0.08
		}
		a := genAdapter(seed, tier, pE)
		a.Steal = 0
		a.Direct, a.Outsiders = false, nil // (the adapter-to-adapter mode belongs to C19)
		return C01Cfg{Adapter: &a, N: a.N, T: a.T, Strategy: a.Strategy, Serial: true, Late: -1}
	}
	maxN := 4
	if tier == "thorough" {
		maxN = 6
	}
	n := r.Range(2, maxN)
	var ids []uint16
	for i := 1; i <= n; i++ {
		ids = append(ids, uint16(i))
	}
	c := C01Cfg{N: n, T: r.Range(2, n), Late: -1}
	c.Deploy = DeployCfg{IDs: ids, Silent: r.Bool(0.5), Threshold: c.T - 1, Backend: "bls", PickUnsorted: r.Bool(0.3)}
	c.Strategy = pickStr(r, netsim.Strategies)
	c.Serial = r.Bool(0.8)
	if r.Bool(0.5) {
		c.Late = r.Intn(n)
	}
	// half of the runs: a membership of small but non-contiguous identifiers, possibly larger than the
	// n parties that generate the key (drawn last so that the other choices of a seed stay what they were)
	if r.Bool(0.5) {
		c.Deploy.IDs, c.Part, c.Deploy.PickFixed = sparseMembership(r, n, c.Deploy.Silent, c.Deploy.PickUnsorted)
	}
	if rd := prng.Derive(seed, "real-init-delay"); rd.Bool(0.2) {
		c.Deploy.RealInitDelayMs = rd.Range(1, 40)
	}
	return c
}

// subsets calls f with every subset of ids of size >= min.
func subsets(ids []uint16, min int, f func([]uint16)) {
	n := len(ids)
	for mask := 1; mask < 1<<n; mask++ {
		var s []uint16
		for i := 0; i < n; i++ {
			if mask&(1<<i) != 0 {
				s = append(s, ids[i])
			}
		}
		if len(s) >= min {
			f(s)
		}
	}
}

// blsOracle is the README flow: load every party's stored data into a fresh
// TBLS, compare public material, sign, aggregate every >=t subset, verify.
func blsOracle(ids []uint16, t int, shares map[uint16][]byte, r *prng.Rand, lg bls.Logger) (problem string, subsetsChecked int) {
	defer func() {
		if rec := recover(); rec != nil {
			problem = fmt.Sprintf("panic in the documented post-DKG flow: %v", rec)
		}
	}()
	signers := map[uint16]*bls.TBLS{}
	var pk0 []byte
	for _, id := range ids {
		s := &bls.TBLS{Logger: lg, Party: id}
		s.Init(ids, t, nil)
		if err := s.SetShareData(shares[id]); err != nil {
			return fmt.Sprintf("party %d: stored data does not load: %v", id, err), 0
		}
		pk, err := s.ThresholdPK()
		if err != nil {
			return fmt.Sprintf("party %d: ThresholdPK: %v", id, err), 0
		}
		if pk0 == nil {
			pk0 = pk
		} else if !bytes.Equal(pk0, pk) {
			return fmt.Sprintf("public material differs between party %d and party %d", ids[0], id), 0
		}
		signers[id] = s
	}
	// (two digests of the same length in a row: see the buffer below)
	digests := [][]byte{{}, {7}, sha([]byte("m")), sha([]byte("m2")), r.Bytes(1024), r.Bytes(r.Range(1, 100))}
	var v bls.Verifier
	if err := v.Init(pk0); err != nil {
		return fmt.Sprintf("Verifier.Init on the reported public parameters: %v", err), 0
	}
	// the digests are handed over in one buffer that is overwritten for every message, as a caller does that
	// computes them with h.Sum(buf[:0]): a signer must not hold on to the caller's slice
	buf := make([]byte, 0, 2048)
	nsub := 0
	for di, dg := range digests {
		sigs := map[uint16][]byte{}
		buf = append(buf[:0], dg...)
		for _, id := range ids {
			sig, err := signers[id].Sign(nil, buf)
			if err != nil {
				return fmt.Sprintf("party %d: Sign: %v", id, err), subsetsChecked
			}
			sigs[id] = sig
		}
		subsets(ids, t, func(sub []uint16) {
			if problem != "" {
				return
			}
			// signatures reach the aggregator in whatever order they arrive: every other subset is handed over in
			// reverse, signers and signatures alike
			nsub++
			if nsub%2 == 0 {
				rev := make([]uint16, len(sub))
				for i := range sub {
					rev[len(sub)-1-i] = sub[i]
				}
				sub = rev
			}
			var ss [][]byte
			for _, id := range sub {
				ss = append(ss, sigs[id])
			}
			agg, err := v.AggregateSignatures(ss, sub)
			if err != nil {
				problem = fmt.Sprintf("aggregate %v: %v", sub, err)
				return
			}
			if err := v.Verify(append([]byte{}, dg...), agg); err != nil {
				problem = fmt.Sprintf("signature of subset %v on digest #%d does not verify under the threshold key: %v", sub, di, err)
				return
			}
			subsetsChecked++
		})
		if problem != "" {
			return
		}
	}
	return "", subsetsChecked
}

func runC01(t *testing.T, spec RunSpec) *RunResult {
	var cfg C01Cfg
	if spec.Cfg != nil {
		if err := json.Unmarshal(spec.Cfg, &cfg); err != nil {
			panic(err)
		}
	} else {
		cfg = genC01(spec.Seed, spec.Tier)
	}
	res := &RunResult{Property: "C01", Seed: spec.Seed, Cfg: mustJSON(cfg), Strategy: cfg.Strategy}
	if cfg.Adapter != nil {
		a := *cfg.Adapter
		m := "loud"
		if a.Deploy.Silent {
			m = "silent"
		}
		res.ConfigKey = fmt.Sprintf("%s n=%d t=%d %s orchestrated-sign digestlen=%d sparse-ids=%v", a.Deploy.Backend, a.N, a.T, m, len(a.Digest), int(a.Deploy.IDs[len(a.Deploy.IDs)-1]) != len(a.Deploy.IDs))
		out := runAdapter(t, spec, a, res)
		for _, v := range out.violations {
			v.Invariant = "C01/" + v.Invariant
			if !strings.HasPrefix(v.Class, "panic/") {
				v.Class = "C01/" + v.Class
			}
			res.Violations = append(res.Violations, v)
		}
		if len(res.Violations) == 0 {
			if k, d := signatureOracle(a, out, spec.Seed); k != "" {
				res.Violations = append(res.Violations, netsim.Violation{Invariant: "C01/" + k, Class: "C01/" + k + "/" + a.Deploy.Backend, Detail: d})
			}
			res.Probes["orchestrated-signatures-verified"] = len(out.sigs)
		}
		return res
	}
	mode := "loud"
	if cfg.Deploy.Silent {
		mode = "silent"
	}
	part := cfg.Part
	ids := "ids=1..n"
	if part == nil {
		part = cfg.Deploy.IDs
	} else {
		ids = fmt.Sprintf("ids=sparse members=n+%d", len(cfg.Deploy.IDs)-cfg.N)
	}
	res.ConfigKey = fmt.Sprintf("bls n=%d t=%d %s serial=%v %s", cfg.N, cfg.T, mode, cfg.Serial, ids)
	restore := seedCryptoRand(spec.Seed)
	defer restore()
	shares := map[uint16][]byte{}
	var lg *CountLogger
	completed := false
	bubble(t, func() {
		w := netsim.NewWorld(spec.Seed)
		w.Serial = cfg.Serial
		trace(spec, res.Cfg, w)
		d := NewDeployment(w, cfg.Deploy)
		d.Build()
		lg = d.Log
		sched, ss := scheduler(spec, cfg.Strategy)
		lim := netsim.RunLimits{MaxSteps: 200000, Horizon: 30 * time.Minute, FairAfterSteps: 6000, FairAfter: 2 * time.Minute}
		st := &starter{}
		for i, id := range part {
			wgt := 3.0
			if i == cfg.Late {
				wgt = 0.01
			}
			st.add(fmt.Sprintf("start:kg:%d", id), id, wgt, startKeyGen(d, id, cfg.N, cfg.T, 0))
		}
		w.Propose = st.proposals
		v := w.Run(sched, lim, func() bool { return st.allDone(w) && quiet(w) })
		if v != nil {
			res.Violations = append(res.Violations, *v)
		}
		res.Violations = append(res.Violations, panicViolations(w, "C01/panic")...)
		if st.allDone(w) {
			completed = true
			for _, c := range st.calls() {
				if c.Err != nil {
					completed = false
					res.Violations = append(res.Violations, netsim.Violation{Invariant: "C01/keygen-failed", Class: "C01/keygen-failed", Detail: "fault-free key generation returned an error: " + callSummary(st.calls())})
					break
				}
				shares[c.Node] = c.Out
			}
		} else if len(res.Violations) == 0 {
			res.Violations = append(res.Violations, netsim.Violation{Invariant: "C01/no-progress", Class: "C01/no-progress", Detail: "fault-free key generation did not complete under a fair schedule: " + callSummary(st.calls()) + " log=" + d.Log.Summary("WE")})
		}
		// non-trivial: some delivery order inversion across links relative to send order
		inv := 0
		last := -1
		for _, m := range w.Delivered {
			if m.ID < last {
				inv++
			}
			if m.ID > last {
				last = m.ID
			}
		}
		w.Probes["cross-link-inversions"] = inv
		res.Nontrivial = inv > 0
		d.Teardown()
		fillResult(res, w, ss)
	})
	if completed && len(res.Violations) == 0 {
		prob, n := blsOracle(part, cfg.T, shares, prng.Derive(spec.Seed, "digests"), lg)
		res.Probes["subsets-verified"] = n
		if prob != "" {
			res.Violations = append(res.Violations, netsim.Violation{Invariant: "C01/bls-oracle", Class: "C01/bls-oracle", Detail: prob})
		}
	}
	return res
}

func init() {
	register(&Check{ID: "C01", Run: runC01})
}
