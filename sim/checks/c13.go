package checks

import (
	"encoding/json"
	"fmt"
	"sort"
	"strings"
	"testing"

	"verif/sim/netsim"
	"verif/sim/prng"
)

// C13 — every 16-bit identifier, round and digest survives the wire encodings.
//
// Differential: a fault-free session is executed twice with the same seed, once
// with the drawn identifiers and once with the order-isomorphic small
// identifiers 1..n. Both must finish, with the same outcome and the same number
// of hand-offs; the large-identifier run must satisfy totality.

var boundaryIDs = []uint16{0, 1, 127, 128, 255, 256, 257, 511, 512, 0x7FFF, 0x8000, 0xFF00, 0xFFFE, 0xFFFF}

type C13Cfg struct {
	Sess C04Cfg   `json:"sess"`
	IDs  []uint16 `json:"ids"`
	Enum bool     `json:"enum"` // from the exhaustive pair/triple enumeration
	// DirectOrder, when set: the BLS / PS key generators are used directly (no orchestrator), with the party list
	// handed to every Init in exactly this order - which need not be ascending
	DirectOrder []uint16 `json:"directOrder,omitempty"`
}

// enumIDs returns the i-th pair or triple of boundary identifiers (nil when the
// enumeration is exhausted).
func enumIDs(i int) []uint16 {
	b := boundaryIDs
	for x := 0; x < len(b); x++ {
		for y := x + 1; y < len(b); y++ {
			if i == 0 {
				return []uint16{b[x], b[y]}
			}
			i--
		}
	}
	for x := 0; x < len(b); x++ {
		for y := x + 1; y < len(b); y++ {
			for z := y + 1; z < len(b); z++ {
				if i == 0 {
					return []uint16{b[x], b[y], b[z]}
				}
				i--
			}
		}
	}
	return nil
}

const c13EnumSize = 91 + 364

func genC13(seed uint64, index int, tier string) C13Cfg {
	r := prng.Derive(seed, "cfg")
	var ids []uint16
	enum := false
	if e := enumIDs(index); e != nil {
		ids = e
		enum = true
	} else {
		n := r.Range(2, 4)
		if tier == "thorough" {
			n = r.Range(2, 5)
		}
		seen := map[uint16]bool{}
		for len(ids) < n {
			var id uint16
			switch r.Intn(3) {
			case 0:
				id = boundaryIDs[r.Intn(len(boundaryIDs))]
			case 1:
				id = uint16(r.Intn(65536))
			default:
				id = uint16(r.Intn(256))<<8 | uint16(r.Intn(4)) // interesting high bytes
			}
			if !seen[id] {
				seen[id] = true
				ids = append(ids, id)
			}
		}
		sort.Slice(ids, func(i, j int) bool { return ids[i] < ids[j] })
	}
	n := len(ids)
	c := C04Cfg{N: n, T: r.Range(2, n), Late: -1, Topic: fmt.Sprintf("topic-%d", r.Intn(1000))}
	c.Deploy = DeployCfg{Silent: r.Bool(0.3), Threshold: r.Range(1, n-1), Backend: "scripted"}
	c.Deploy.SP = genScriptedParams(r, 3)
	c.Deploy.SignSP = genScriptedParams(r, 2)
	c.Strategy = pickStr(r, netsim.Strategies)
	c.Serial = r.Bool(0.85)
	c.Op = pickStr(r, []string{"keygen", "sign", "both"})
	if r.Bool(0.35) {
		c.Deploy.Backend = "bls"
		c.Op = "keygen"
		c.Deploy.Threshold = c.T - 1
	}
	if r.Bool(0.3) {
		c.Late = r.Intn(n)
	}
	// further backends whose encodings carry identifiers: PS (8%), and the tss-lib EdDSA adapter, whose party keys
	// are derived from the identifiers (4%; about a second per run)
	switch x := prng.Derive(seed, "more-backends").Float64(); {
	case x < 0.04:
		c.Deploy.Backend, c.Op = "eddsa", "keygen"
		c.T = n - 1 // tss-lib's threshold: t+1 parties reconstruct
		c.Deploy.Threshold = n - 1
		c.Serial = true
	case x < 0.12:
		c.Deploy.Backend, c.Op = "ps", "keygen"
		if c.T < 2 {
			c.T = 2
		}
		c.Deploy.Threshold = c.T - 1
		c.Deploy.PSMsgLen = 1 + int(x*1000)%3
	}
	out := C13Cfg{Sess: c, IDs: ids, Enum: enum}
	if rd := prng.Derive(seed, "direct-order"); (c.Deploy.Backend == "bls" || c.Deploy.Backend == "ps") && rd.Bool(0.4) {
		out.DirectOrder = append([]uint16(nil), ids...)
		for i := len(out.DirectOrder) - 1; i > 0; i-- {
			j := rd.Intn(i + 1)
			out.DirectOrder[i], out.DirectOrder[j] = out.DirectOrder[j], out.DirectOrder[i]
		}
	}
	return out
}

type c13Outcome struct {
	ok       bool
	handoffs int
	summary  string
}

func runC13(t *testing.T, spec RunSpec) *RunResult {
	var cfg C13Cfg
	if spec.Cfg != nil {
		if err := json.Unmarshal(spec.Cfg, &cfg); err != nil {
			panic(err)
		}
	} else {
		cfg = genC13(spec.Seed, spec.Index, spec.Tier)
	}
	res := &RunResult{Property: "C13", Seed: spec.Seed, Cfg: mustJSON(cfg), Strategy: cfg.Sess.Strategy}
	mode := "loud"
	if cfg.Sess.Deploy.Silent {
		mode = "silent"
	}
	hi := 0
	for _, id := range cfg.IDs {
		if id >= 256 {
			hi++
		}
	}
	res.ConfigKey = fmt.Sprintf("n=%d %s %s %s ids>=256:%d", len(cfg.IDs), cfg.Sess.Deploy.Backend, mode, cfg.Sess.Op, hi)
	restore := seedCryptoRand(spec.Seed)
	defer restore()

	if cfg.DirectOrder != nil {
		// direct use of the MPC API with a party list in arbitrary order: the key generation must complete and the
		// reported public parameters must serve every signer subset
		sc := cfg.Sess
		res.ConfigKey = fmt.Sprintf("n=%d %s direct-api party-list-order=%v ids>=256:%d", len(cfg.IDs), sc.Deploy.Backend, !sort.SliceIsSorted(cfg.DirectOrder, func(i, j int) bool { return cfg.DirectOrder[i] < cfg.DirectOrder[j] }), hi)
		t13 := sc.T
		if t13 < 2 {
			t13 = 2
		}
		var shares map[uint16][]byte
		var lg *CountLogger
		bubble(t, func() {
			w := netsim.NewWorld(spec.Seed)
			w.Serial = true
			trace(spec, res.Cfg, w)
			lg = NewCountLogger()
			var calls []*netsim.Call
			var ss *netsim.ScriptSched
			shares, calls, ss = runDirectDKG(spec, w, sc.Deploy.Backend, cfg.DirectOrder, t13, sc.Deploy.PSMsgLen, sc.Strategy, lg)
			res.Violations = append(res.Violations, panicViolations(w, "C13/panic")...)
			if len(shares) != len(cfg.DirectOrder) && len(res.Violations) == 0 {
				res.Violations = append(res.Violations, netsim.Violation{Invariant: "C13/direct-keygen", Class: "C13/direct-keygen", Detail: fmt.Sprintf("fault-free key generation with the party list %v did not complete everywhere: %s", cfg.DirectOrder, callSummary(calls))})
			}
			fillResult(res, w, ss)
		})
		if len(res.Violations) == 0 {
			var prob string
			var n int
			if sc.Deploy.Backend == "bls" {
				prob, n = blsOracle(cfg.DirectOrder, t13, shares, prng.Derive(spec.Seed, "digests"), lg)
			} else {
				prob, n = psOracle(cfg.DirectOrder, cfg.DirectOrder, t13, max(sc.Deploy.PSMsgLen, 1), shares, prng.Derive(spec.Seed, "messages"), lg, 1)
			}
			res.Probes["subsets-verified"] = n
			if prob != "" {
				res.Violations = append(res.Violations, netsim.Violation{Invariant: "C13/serialisation", Class: "C13/serialisation", Detail: fmt.Sprintf("party list %v: %s", cfg.DirectOrder, prob)})
			}
		}
		res.Nontrivial = hi > 0
		res.Fingerprint = fmt.Sprintf("direct/%v/%s", cfg.DirectOrder, res.Fingerprint)
		return res
	}

	run := func(ids []uint16, twin bool, res *RunResult) c13Outcome {
		var oc c13Outcome
		sc := cfg.Sess
		sc.Deploy.IDs = ids
		sc.Deploy.PIDs = nil
		sp := spec
		if twin {
			sp.TraceFile = ""
			sp.Actions, sp.Scripted = nil, false // the twin always runs its own seeded schedule
		}
		shares := map[uint16][]byte{}
		var lg *CountLogger
		bubble(t, func() {
			out, ss := runSession(sp, sc, "C13", res, nil)
			w, d := out.W, out.D
			lg = d.Log
			oc.ok = out.OK
			oc.summary = callSummary(out.Calls)
			if out.OK && sc.Deploy.Backend == "scripted" {
				ev := d.Rec.Snapshot()
				for _, prefix := range []string{"kg", "sg"} {
					probs, n := totality(ev, prefix, d.Cfg.PIDs)
					oc.handoffs += n
					if len(probs) > 0 && !twin {
						res.Violations = append(res.Violations, netsim.Violation{Invariant: "C13/totality", Class: "C13/totality", Detail: strings.Join(probs, "; ")})
					}
				}
				if n := d.Log.Count("Detected conflicting digests") + d.Log.Count("Equivocation detected"); n > 0 && !twin {
					res.Violations = append(res.Violations, netsim.Violation{Invariant: "C13/false-equivocation", Class: "C13/false-equivocation", Detail: fmt.Sprintf("%d equivocation conclusions among honest parties", n)})
				}
			}
			if out.OK {
				for id, s := range out.Stored {
					shares[id] = s
				}
			}
			if !twin {
				w.Probes["handoffs"] = oc.handoffs
			}
			d.Teardown()
			if !twin {
				fillResult(res, w, ss)
			}
		})
		if oc.ok && sc.Deploy.Backend == "ps" && !twin {
			prob, n := psOracle(ids, ids, sc.T, sc.Deploy.PSMsgLen, shares, prng.Derive(spec.Seed, "messages"), lg, 1)
			res.Probes["subsets-verified"] = n
			if prob != "" {
				res.Violations = append(res.Violations, netsim.Violation{Invariant: "C13/serialisation", Class: "C13/serialisation", Detail: prob})
			}
		}
		if oc.ok && sc.Deploy.Backend == "bls" && !twin {
			prob, n := blsOracle(ids, sc.T, shares, prng.Derive(spec.Seed, "digests"), lg)
			res.Probes["subsets-verified"] = n
			if prob != "" {
				res.Violations = append(res.Violations, netsim.Violation{Invariant: "C13/serialisation", Class: "C13/serialisation", Detail: prob})
			}
		}
		return oc
	}

	var small []uint16
	for i := range cfg.IDs {
		small = append(small, uint16(i+1))
	}
	twinRes := &RunResult{}
	twin := run(small, true, twinRes)
	if !twin.ok {
		// the small-identifier twin does not finish either: not an identifier problem (C04's business)
		res.Skipped = true
		res.Sample = "twin with ids 1..n failed: " + twin.summary
		return res
	}
	big := run(cfg.IDs, false, res)
	if len(res.Violations) == 0 && (big.ok != twin.ok || big.handoffs != twin.handoffs) {
		res.Violations = append(res.Violations, netsim.Violation{Invariant: "C13/differential", Class: "C13/differential", Detail: fmt.Sprintf("ids %v: ok=%v handoffs=%d, twin 1..n: ok=%v handoffs=%d", cfg.IDs, big.ok, big.handoffs, twin.ok, twin.handoffs)})
	}
	// classes of stalls are shared with the generic session runner; make them specific to the id shape
	for i := range res.Violations {
		if strings.HasPrefix(res.Violations[i].Class, "C13/stalled") || strings.HasPrefix(res.Violations[i].Class, "C13/call-failed") {
			res.Violations[i].Detail = fmt.Sprintf("ids %v (twin with ids 1..n finished): %s", cfg.IDs, res.Violations[i].Detail)
		}
	}
	// tss-lib uses the party keys as the points at which the shares are evaluated: a party with identifier 0 cannot
	// take part in a session of the adapters (known finding, see known_findings.jsonl)
	if cfg.Sess.Deploy.Backend == "eddsa" || cfg.Sess.Deploy.Backend == "ecdsa" {
		for _, id := range cfg.IDs {
			if id == 0 {
				for i := range res.Violations {
					if !strings.HasPrefix(res.Violations[i].Class, "panic/") {
						res.Violations[i].Detail = "[" + res.Violations[i].Class + "] " + res.Violations[i].Detail
						res.Violations[i].Class = "C13/adapter-identifier-zero"
					}
				}
			}
		}
	}
	res.Nontrivial = hi > 0
	if cfg.Enum {
		if res.Probes == nil {
			res.Probes = map[string]int{}
		}
		res.Probes["enumerated-boundary-sessions(of-455)"]++
	}
	res.Fingerprint = fmt.Sprintf("%v/%s", cfg.IDs, res.Fingerprint)
	return res
}

func init() {
	register(&Check{ID: "C13", Run: runC13})
}
