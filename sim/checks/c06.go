package checks

import (
	"encoding/json"
	"fmt"
	"sort"
	"strings"
	"testing"
	"time"

	"verif/sim/netsim"
	"verif/sim/prng"
	"verif/sim/scripted"
)

// C06 — node-id/party-id translation is transparent; secrets reach only the right node.

type C06Cfg struct {
	Sess         C04Cfg   `json:"sess"`
	Universe     []uint16 `json:"universe"`     // every configured node (Deploy.PIDs holds the map)
	Participants []uint16 `json:"participants"` // nodes that invoke KeyGen (one per party unless Refusal)
	MapKind      string   `json:"mapKind"`      // identity | injective | replicas
	Refusal      bool     `json:"refusal"`      // two participants represent the same party
	// Overlap (loud mode, replicas): two signing sessions on different topics run at the same time on the same
	// Schemes; in the second one the parties are represented by other replicas where they have any. What one
	// session learned about who represents whom must not leak into the other.
	Overlap       bool     `json:"overlap,omitempty"`
	Participants2 []uint16 `json:"participants2,omitempty"`
}

func genC06(seed uint64, tier string) C06Cfg {
	r := prng.Derive(seed, "cfg")
	maxP := 4
	if tier == "thorough" {
		maxP = 5
	}
	np := r.Range(2, maxP) // number of parties
	kind := pickStr(r, []string{"identity", "injective", "injective", "replicas", "replicas"})
	drawID := func(seen map[uint16]bool) uint16 {
		for {
			var id uint16
			switch r.Intn(5) {
			case 0, 1:
				id = uint16(1 + r.Intn(40))
			case 2:
				id = boundaryIDs[r.Intn(len(boundaryIDs))] // 0, byte boundaries, 0xFFFF: zero values and truncations hide here
			default:
				id = uint16(r.Intn(65536))
			}
			if !seen[id] {
				seen[id] = true
				return id
			}
		}
	}
	seenU, seenP := map[uint16]bool{}, map[uint16]bool{}
	pids := map[uint16]uint16{}
	var parties []uint16
	var universe, participants []uint16
	for i := 0; i < np; i++ {
		u := drawID(seenU)
		p := u
		if kind != "identity" {
			p = drawID(seenP)
		} else {
			seenP[p] = true
		}
		parties = append(parties, p)
		pids[u] = p
		universe = append(universe, u)
		participants = append(participants, u)
	}
	if kind == "replicas" {
		extra := r.Range(1, 3)
		for i := 0; i < extra; i++ {
			u := drawID(seenU)
			p := parties[r.Intn(len(parties))]
			pids[u] = p
			universe = append(universe, u)
			// any one replica of a party may be the participant
			if r.Bool(0.5) {
				for j, q := range participants {
					if pids[q] == p {
						participants[j] = u
					}
				}
			}
		}
	}
	c := C06Cfg{MapKind: kind}
	if kind == "replicas" && r.Bool(0.2) {
		// refusal: add a second replica of a participating party to the participants
		for _, u := range universe {
			dup := false
			for _, q := range participants {
				if q == u {
					dup = true
				}
			}
			if !dup {
				participants = append(participants, u)
				c.Refusal = true
				break
			}
		}
	}
	sort.Slice(universe, func(i, j int) bool { return universe[i] < universe[j] })
	sort.Slice(participants, func(i, j int) bool { return participants[i] < participants[j] })
	n := len(participants)
	s := C04Cfg{N: n, T: r.Range(1, n), Late: -1, Topic: fmt.Sprintf("topic-%d", r.Intn(1000))}
	s.Deploy = DeployCfg{IDs: universe, PIDs: pids, Silent: r.Bool(0.35), Threshold: n - 1, Backend: "scripted"}
	s.Deploy.SP = genScriptedParams(r, 3)
	if s.Deploy.SP.P2P == 0 {
		s.Deploy.SP.P2P = 1
	}
	s.Deploy.SignSP = genScriptedParams(r, 2)
	if s.Deploy.SignSP.P2P == 0 {
		s.Deploy.SignSP.P2P = 1
	}
	s.Deploy.PickFixed = append([]uint16(nil), participants...)
	if r.Bool(0.3) {
		p := r.Perm(len(participants))
		for i, j := range p {
			s.Deploy.PickFixed[i] = participants[j]
		}
	}
	s.Strategy = pickStr(r, netsim.Strategies)
	s.Serial = r.Bool(0.85)
	s.Op = pickStr(r, []string{"keygen", "sign", "both"})
	s.Signers = participants
	if r.Bool(0.3) {
		s.Late = r.Intn(n)
	}
	if c.Refusal {
		s.CallTimeoutMs = 20000 + r.Intn(1000)
		s.Op = pickStr(r, []string{"keygen", "sign"})
	}
	c.Sess = s
	c.Universe = universe
	c.Participants = participants
	if ro := prng.Derive(seed, "overlap"); kind == "replicas" && !c.Refusal && ro.Bool(0.5) {
		// the second session: for every party another replica if there is one
		var p2 []uint16
		differs := false
		for _, q := range participants {
			alt := q
			for _, u := range universe {
				if u != q && pids[u] == pids[q] {
					alt = u
				}
			}
			if alt != q {
				differs = true
			}
			p2 = append(p2, alt)
		}
		if differs {
			sort.Slice(p2, func(i, j int) bool { return p2[i] < p2[j] })
			c.Overlap = true
			c.Participants2 = p2
			c.Sess.Deploy.Silent = false
			c.Sess.Deploy.PickFixed = nil
			c.Sess.Op = "sign"
			c.Sess.Late = -1
			if sp := &c.Sess.Deploy.SignSP; sp.Rounds < 2 {
				sp.Rounds = 2 // point-to-point messages are still being emitted when the other session initialises
				width := 1
				if sp.Bcast > 1 {
					width = sp.Bcast
				}
				if span := (sp.Rounds-1)*width + sp.Bcast - 1; int(sp.RoundBase)+span > 127 {
					sp.RoundBase = uint8(127 - span)
				}
			}
			c.Sess.Deploy.SignSP.Lockstep = true
		}
	}
	return c
}

// runC06Overlap: two concurrent signing sessions whose parties are represented by different replicas.
func runC06Overlap(spec RunSpec, cfg C06Cfg, res *RunResult) (*netsim.World, *Deployment, *netsim.ScriptSched) {
	w := netsim.NewWorld(spec.Seed)
	w.Serial = cfg.Sess.Serial
	trace(spec, res.Cfg, w)
	d := NewDeployment(w, cfg.Sess.Deploy)
	d.Build()
	pidOf := cfg.Sess.Deploy.PIDs
	sched, ss := scheduler(spec, cfg.Sess.Strategy)
	topics := []string{cfg.Sess.Topic + "/A", cfg.Sess.Topic + "/B"}
	sessions := [][]uint16{cfg.Participants, cfg.Participants2}
	var parties []uint16
	for _, u := range cfg.Participants {
		parties = append(parties, pidOf[u])
	}
	sort.Slice(parties, func(i, j int) bool { return parties[i] < parties[j] })
	for _, u := range cfg.Universe {
		d.Parties[u].SetStoredData(fabricatedStored(parties, cfg.Sess.T, pidOf[u]))
	}
	st := &starter{}
	for si, part := range sessions {
		for _, id := range part {
			wgt := 3.0
			if si == 1 {
				wgt = 0.6 // the second session tends to start a little later
			}
			st.add(fmt.Sprintf("start:sg%d:%d", si, id), id, wgt, startSign(d, id, sha([]byte(topics[si])), topics[si], 0))
		}
	}
	w.Propose = st.proposals
	lim := netsim.RunLimits{MaxSteps: 200000, Horizon: 30 * time.Minute, FairAfterSteps: 6000, FairAfter: 2 * time.Minute}
	if v := w.Run(sched, lim, func() bool { return st.allDone(w) && quiet(w) }); v != nil {
		res.Violations = append(res.Violations, *v)
	}
	res.Violations = append(res.Violations, panicViolations(w, "C06/panic")...)
	if len(res.Violations) > 0 {
		return w, d, ss
	}
	// every point-to-point message goes to exactly the node that represents its addressee in ITS session
	nodeOfParty := []map[uint16]uint16{{}, {}}
	for si, part := range sessions {
		for _, u := range part {
			nodeOfParty[si][pidOf[u]] = u
		}
	}
	topicIdx := map[string]int{string(sha([]byte(topics[0]))): 0, string(sha([]byte(topics[1]))): 1}
	for _, e := range d.Rec.Snapshot() {
		if e.Kind != "send" || e.Bcast {
			continue
		}
		var dests []uint16
		si := -1
		for _, m := range w.WireLog {
			if !isMPC(m) || m.From != e.Node {
				continue
			}
			wr, ok := ParseMPC(m.Data)
			if !ok || wr.IsAck || string(wr.Payload) != string(e.Payload) {
				continue
			}
			dests = append(dests, m.To)
			if i, ok := topicIdx[string(m.Topic)]; ok {
				si = i
			}
		}
		if si < 0 {
			// never reached the wire: the session it belongs to is found through the emitting node's calls
			res.Violations = append(res.Violations, netsim.Violation{Invariant: "C06/p2p-destination", Class: "C06/p2p-destination/overlap", Detail: fmt.Sprintf("node %d addressed party %d while two sessions were running, but nothing was transmitted (map %v, sessions %v)", e.Node, e.To, pidOf, sessions)})
			return w, d, ss
		}
		want := nodeOfParty[si][e.To]
		if len(dests) != 1 || dests[0] != want {
			res.Violations = append(res.Violations, netsim.Violation{Invariant: "C06/p2p-destination", Class: "C06/p2p-destination/overlap", Detail: fmt.Sprintf("session %q (nodes %v): node %d addressed party %d, which node %d represents in this session, but transmitted to %v; the other session, running at the same time, has nodes %v (map %v)", topics[si], sessions[si], e.Node, e.To, want, dests, sessions[1-si], pidOf)})
			return w, d, ss
		}
		w.Probes["p2p-checked"]++
	}
	if !st.allDone(w) {
		res.Violations = append(res.Violations, netsim.Violation{Invariant: "C06/stalled", Class: "C06/stalled/overlap", Detail: "two fault-free signing sessions on different topics did not both finish: " + callSummary(st.calls())})
		return w, d, ss
	}
	for _, c := range st.calls() {
		if c.Err != nil {
			res.Violations = append(res.Violations, netsim.Violation{Invariant: "C06/call-failed", Class: "C06/call-failed/overlap", Detail: "two fault-free signing sessions on different topics: " + callSummary(st.calls())})
			break
		}
	}
	return w, d, ss
}

func u16s(a []uint16) string { return fmt.Sprint(a) }

// c06Oracle inspects Init/OnMsg arguments and p2p destinations of one session kind.
func c06Oracle(w *netsim.World, ev []scripted.Event, prefix string, cfg C06Cfg) []netsim.Violation {
	var vs []netsim.Violation
	pidOf := cfg.Sess.Deploy.PIDs
	var want []uint16
	nodeOfParty := map[uint16]uint16{}
	for _, u := range cfg.Participants {
		want = append(want, pidOf[u])
		nodeOfParty[pidOf[u]] = u
	}
	sort.Slice(want, func(i, j int) bool { return want[i] < want[j] })
	isParticipant := map[uint16]bool{}
	for _, u := range cfg.Participants {
		isParticipant[u] = true
	}
	for _, e := range ev {
		if !strings.HasPrefix(e.Instance, prefix) {
			continue
		}
		switch e.Kind {
		case "init":
			if u16s(e.Parties) != u16s(want) {
				vs = append(vs, netsim.Violation{Invariant: "C06/init-parties", Class: "C06/init-parties/" + prefix, Detail: fmt.Sprintf("node %d (party %d): backend initialised with %v, the sorted party identifiers of the agreed participants are %v (participants %v, map %v)", e.Node, pidOf[e.Node], e.Parties, want, cfg.Participants, pidOf)})
				return vs
			}
		case "onmsg":
			h, err := scripted.Decode(e.Payload)
			if err != nil {
				continue
			}
			// the payload names the party that emitted it; the authenticated sender is the node representing it
			if e.From != h.FromPID {
				vs = append(vs, netsim.Violation{Invariant: "C06/onmsg-from", Class: "C06/onmsg-from/" + prefix, Detail: fmt.Sprintf("node %d: message emitted by party %d (node %d) handed over as coming from %d", e.Node, h.FromPID, nodeOfParty[h.FromPID], e.From)})
				return vs
			}
		}
	}
	// every point-to-point message on the wire goes to exactly one node: the participant representing the addressee
	for _, e := range ev {
		if !strings.HasPrefix(e.Instance, prefix) || e.Kind != "send" || e.Bcast {
			continue
		}
		var dests []uint16
		for _, m := range w.WireLog {
			if !isMPC(m) || m.From != e.Node {
				continue
			}
			wr, ok := ParseMPC(m.Data)
			if !ok || wr.IsAck || string(wr.Payload) != string(e.Payload) {
				continue
			}
			dests = append(dests, m.To)
		}
		wantNode, ok := nodeOfParty[e.To]
		if !ok {
			continue
		}
		if len(dests) != 1 || dests[0] != wantNode {
			vs = append(vs, netsim.Violation{Invariant: "C06/p2p-destination", Class: "C06/p2p-destination/" + prefix, Detail: fmt.Sprintf("node %d addressed party %d (represented in this session by node %d): transmitted to %v (map %v, participants %v)", e.Node, e.To, wantNode, dests, pidOf, cfg.Participants)})
			return vs
		}
	}
	return vs
}

func runC06(t *testing.T, spec RunSpec) *RunResult {
	var cfg C06Cfg
	if spec.Cfg != nil {
		if err := json.Unmarshal(spec.Cfg, &cfg); err != nil {
			panic(err)
		}
	} else {
		cfg = genC06(spec.Seed, spec.Tier)
	}
	res := &RunResult{Property: "C06", Seed: spec.Seed, Cfg: mustJSON(cfg), Strategy: cfg.Sess.Strategy}
	mode := "loud"
	if cfg.Sess.Deploy.Silent {
		mode = "silent"
	}
	res.ConfigKey = fmt.Sprintf("%s parties=%d nodes=%d %s %s refusal=%v", cfg.MapKind, len(cfg.Participants), len(cfg.Universe), mode, cfg.Sess.Op, cfg.Refusal)
	if cfg.Overlap {
		res.ConfigKey = fmt.Sprintf("replicas parties=%d nodes=%d loud two-overlapping-sign-sessions", len(cfg.Participants), len(cfg.Universe))
		bubble(t, func() {
			w, d, ss := runC06Overlap(spec, cfg, res)
			res.Nontrivial = true
			d.Teardown()
			fillResult(res, w, ss)
		})
		return res
	}
	bubble(t, func() {
		sc := cfg.Sess
		// only the participants invoke; every configured node exists
		scRun := sc
		sessRes := &RunResult{}
		out, ss := runSessionWith(spec, scRun, cfg.Participants, "C06", sessRes, res)
		w, d := out.W, out.D
		ev := d.Rec.Snapshot()
		if cfg.Refusal {
			// every call must have returned an error; nobody may have been handed anything
			bad := ""
			for _, c := range out.Calls {
				if !c.Done {
					bad = "a call did not return: " + callSummary(out.Calls)
				} else if c.Err == nil && c.Panic == "" {
					bad = "a call succeeded: " + callSummary(out.Calls)
				}
			}
			res.Violations = append(res.Violations, panicViolations(w, "C06/panic")...)
			if bad != "" {
				res.Violations = append(res.Violations, netsim.Violation{Invariant: "C06/refusal", Class: "C06/refusal", Detail: fmt.Sprintf("two selected nodes represent one party (participants %v, map %v) but %s", cfg.Participants, cfg.Sess.Deploy.PIDs, bad)})
			}
		} else {
			var vs []netsim.Violation
			for _, prefix := range []string{"kg", "sg"} {
				vs = append(vs, c06Oracle(w, ev, prefix, cfg)...)
			}
			if len(vs) > 0 {
				// translation errors explain any stall; report them rather than the stall
				res.Violations = vs
			} else {
				res.Violations = append(res.Violations, sessRes.Violations...)
				if out.OK {
					for _, prefix := range []string{"kg", "sg"} {
						probs, _ := totality(ev, prefix, d.Cfg.PIDs)
						if len(probs) > 0 {
							res.Violations = append(res.Violations, netsim.Violation{Invariant: "C06/totality", Class: "C06/totality", Detail: strings.Join(probs, "; ")})
						}
					}
				}
			}
		}
		res.Nontrivial = cfg.MapKind != "identity"
		d.Teardown()
		fillResult(res, w, ss)
		res.Fingerprint = cfg.MapKind + fmt.Sprint(cfg.Sess.Deploy.PIDs) + res.Fingerprint
	})
	return res
}

func init() {
	register(&Check{ID: "C06", Run: runC06})
}
