package checks

import (
	"encoding/json"
	"fmt"
	"sort"
	"strings"
	"testing"
	"testing/synctest"
	"time"

	"verif/sim/netsim"
	"verif/sim/prng"

	"github.com/IBM/TSS/msg"
	tss "github.com/IBM/TSS/types"
)

// C15 — the silent-mode buffer stays bounded and gives resources back.
//
// Long seeded histories of recv / send / idle on a real msg.Box inside one
// bubble (the Box's ticker and time.Now read the simulated clock), compared
// with a reference model of the stated behaviour with deliberate, narrow
// tolerances around the limits and the expiry time.

type C15Op struct {
	Kind   string `json:"k"` // recv | send | idle
	Sender uint16 `json:"s,omitempty"`
	Topic  int    `json:"t,omitempty"`
	Burst  int    `json:"b,omitempty"`
	IdleMs int    `json:"i,omitempty"`
}

type C15Cfg struct {
	MaxTopics int     `json:"maxTopics"` // MaxInFlightTopicsBySender
	SweepMs   int     `json:"sweepMs"`
	ExpireMs  int     `json:"expireMs"`
	Ops       []C15Op `json:"ops"`
}

const c15PerSender = 100 // documented per-sender, per-topic limit of the buffer

func genC15(seed uint64, tier string) C15Cfg {
	r := prng.Derive(seed, "cfg")
	c := C15Cfg{MaxTopics: r.Range(1, 6), SweepMs: []int{1000, 5000, 20000}[r.Intn(3)]}
	c.ExpireMs = c.SweepMs * r.Range(2, 6)
	if tier == "thorough" && r.Bool(0.2) {
		c.MaxTopics, c.SweepMs, c.ExpireMs = 10000, 20000, 120000 // production values
	}
	n := r.Range(20, 250)
	if tier == "thorough" {
		n = r.Range(50, 2500)
	}
	nextTopic := 0
	var open []int // topics with buffered data that have not been started
	profile := r.Intn(4)
	for i := 0; i < n; i++ {
		x := r.Float64()
		switch {
		case x < 0.45:
			op := C15Op{Kind: "recv", Sender: uint16(1 + r.Intn(3)), Burst: 1}
			if len(open) > 0 && r.Bool(0.5) {
				op.Topic = open[r.Intn(len(open))]
			} else {
				op.Topic = nextTopic
				nextTopic++
				open = append(open, op.Topic)
			}
			switch {
			case r.Bool(0.05):
				op.Burst = r.Range(95, 110) // around the per-sender limit
			case r.Bool(0.2):
				op.Burst = r.Range(2, 8)
			}
			c.Ops = append(c.Ops, op)
		case x < 0.75 && len(open) > 0:
			// sessions: the local party starts a topic it has data for (profile 0: always the oldest)
			j := r.Intn(len(open))
			if profile == 0 {
				j = 0
			}
			c.Ops = append(c.Ops, C15Op{Kind: "send", Topic: open[j]})
			open = append(open[:j:j], open[j+1:]...)
		case x < 0.8:
			c.Ops = append(c.Ops, C15Op{Kind: "send", Topic: nextTopic}) // a topic nobody wrote to yet
			nextTopic++
		default:
			idle := c.SweepMs * r.Range(0, 3) / 2
			if r.Bool(0.25) {
				idle = c.ExpireMs*r.Range(1, 3) + c.SweepMs*r.Range(0, 4) // long enough for buffered data to expire
			}
			c.Ops = append(c.Ops, C15Op{Kind: "idle", IdleMs: idle + r.Intn(700)})
		}
	}
	// a fifth of the histories contain a flood: a sender exceeds the per-topic limit on a topic that never starts and
	// keeps sending to it at intervals shorter than the expiry, while other topics come and go (the collector gets
	// its chances); in the end the topic is started: nothing of the flood may still be there
	if rf := prng.Derive(seed, "flood"); rf.Bool(0.2) {
		t := nextTopic
		nextTopic++
		snd := uint16(1 + rf.Intn(3))
		var fl []C15Op
		fl = append(fl, C15Op{Kind: "recv", Sender: snd, Topic: t, Burst: rf.Range(103, 110)})
		step := c.SweepMs + rf.Intn(max(1, c.ExpireMs*8/10-c.SweepMs))
		total := 0
		for total < 2*c.ExpireMs+6*c.SweepMs+2*step {
			fl = append(fl, C15Op{Kind: "idle", IdleMs: step})
			total += step
			fl = append(fl, C15Op{Kind: "recv", Sender: snd, Topic: t, Burst: rf.Range(1, 2)})
			fl = append(fl, C15Op{Kind: "send", Topic: nextTopic})
			nextTopic++
		}
		fl = append(fl, C15Op{Kind: "send", Topic: t})
		at := rf.Intn(len(c.Ops) + 1)
		c.Ops = append(c.Ops[:at:at], append(fl, c.Ops[at:]...)...)
	}
	// a sixth of the histories contain a revival: a sender fills its topic allowance, everything stays idle for longer
	// than the expiry WITHOUT the collector running (no send), the sender then writes to each of those topics again,
	// and to as many new ones; in the end everything is started. The sender's allowance is what it is: data
	// of at most limit+1 topics may be there at any one time
	if rv := prng.Derive(seed, "revive"); rv.Bool(0.17) && c.MaxTopics <= 8 { // (not with the production allowance of 10000 topics)
		snd := uint16(1 + rv.Intn(3))
		k := c.MaxTopics + 1 + rv.Intn(3)
		var blk []C15Op
		first := nextTopic
		for i := 0; i < k; i++ {
			blk = append(blk, C15Op{Kind: "recv", Sender: snd, Topic: nextTopic, Burst: 1})
			nextTopic++
		}
		blk = append(blk, C15Op{Kind: "idle", IdleMs: c.ExpireMs + c.SweepMs*rv.Range(1, 3)})
		for i := 0; i < k; i++ {
			blk = append(blk, C15Op{Kind: "recv", Sender: snd, Topic: first + i, Burst: 1})
		}
		for i := 0; i < k; i++ {
			blk = append(blk, C15Op{Kind: "recv", Sender: snd, Topic: nextTopic, Burst: 1})
			nextTopic++
		}
		for t := first; t < nextTopic; t++ {
			blk = append(blk, C15Op{Kind: "send", Topic: t})
		}
		at := rv.Intn(len(c.Ops) + 1)
		c.Ops = append(c.Ops[:at:at], append(blk, c.Ops[at:]...)...)
	}
	// finally start everything that is still open, after a few sends that give the GC its chance
	for _, t := range open {
		c.Ops = append(c.Ops, C15Op{Kind: "send", Topic: t})
	}
	return c
}

type heldKey struct {
	sender uint16
	topic  int
}

type occupancy struct{ froms, tos []int }

func insertSorted(a []int, x int) []int {
	i := sort.Search(len(a), func(i int) bool { return a[i] > x })
	a = append(a, 0)
	copy(a[i+1:], a[i:])
	a[i] = x
	return a
}

func keysOf(m map[int]bool) []int {
	var ks []int
	for k := range m {
		ks = append(ks, k)
	}
	sort.Ints(ks)
	return ks
}

type c15Handler struct{ log []string }

func (h *c15Handler) HandleMessage(m *tss.IncMessage) { h.log = append(h.log, string(m.Data)) }

type c15Msg struct {
	id      string
	sender  uint16
	at      time.Duration
	verdict string // must | mustnot | either (w.r.t. the limits at arrival)
	era     int
	atOp    int // index of the operation that delivered it
}

// c15Era is a stretch of a topic's history in which its buffered data was surely never collected in between.
// hi is the latest arrival that can have extended the life of the era's data: an arrival of a sender that surely has
// more than the per-topic limit stored in the era cannot - either the era's buffer still exists, then the arrival
// is shed, or it has been collected, then there is nothing left to extend.
type c15Era struct {
	hi     time.Duration
	stored map[uint16]int // messages per sender that were surely stored at arrival
	after  map[uint16]int // arrivals per sender since its surely stored messages reached the limit
}

type c15Topic struct {
	eras       []*c15Era
	msgs       []*c15Msg
	lastUsed   time.Duration // arrival of the last message that was surely stored (lower bound of the buffer's own notion)
	lastUsedHi time.Duration // arrival of the last message of any kind (upper bound)
	started    bool
	startedAt  time.Duration
	lastSentAt time.Duration
}

func runC15(t *testing.T, spec RunSpec) *RunResult {
	var cfg C15Cfg
	if spec.Cfg != nil {
		if err := json.Unmarshal(spec.Cfg, &cfg); err != nil {
			panic(err)
		}
	} else {
		cfg = genC15(spec.Seed, spec.Tier)
	}
	res := &RunResult{Property: "C15", Seed: spec.Seed, Cfg: mustJSON(cfg), Strategy: "history", Probes: map[string]int{}, Faults: map[string]int{}}
	res.ConfigKey = fmt.Sprintf("maxTopics=%d sweep=%ds expire=%ds ops=%d", cfg.MaxTopics, cfg.SweepMs/1000, cfg.ExpireMs/1000, len(cfg.Ops))
	if spec.TraceFile != "" {
		trace(spec, res.Cfg, nil)
	}
	// a replay/minimisation keeps only the operations whose index is listed in the action list
	ops := cfg.Ops
	if spec.Scripted || spec.Actions != nil {
		keep := map[int]bool{}
		for _, a := range spec.Actions {
			var i int
			if _, err := fmt.Sscanf(a.K, "op:%d", &i); err == nil {
				keep[i] = true
			}
		}
		var sel []C15Op
		for i, op := range cfg.Ops {
			if keep[i] {
				sel = append(sel, op)
			} else {
				sel = append(sel, C15Op{Kind: "skip"})
			}
		}
		ops = sel
	}
	bubble(t, func() {
		start := time.Now()
		now := func() time.Duration { return time.Since(start) }
		sweep := time.Duration(cfg.SweepMs) * time.Millisecond
		expire := time.Duration(cfg.ExpireMs) * time.Millisecond
		h := &c15Handler{}
		lg := NewCountLogger()
		box := &msg.Box{Logger: lg, MaxInFlightTopicsBySender: cfg.MaxTopics, GCSweep: sweep, GCExpire: expire,
			NewTicker:      func(d time.Duration) *time.Ticker { return time.NewTicker(d) },
			ForwardSend:    func(uint8, []byte, []byte, ...tss.UniversalID) {},
			MessageHandler: h}
		topics := map[int]*c15Topic{}
		held := map[heldKey][2]int{}   // (sender, topic) -> [operation that delivered the oldest released message, this send operation)
		occ := map[uint16]*occupancy{} // per sender: beginnings and ends of all such intervals so far, sorted
		var sendTimes []time.Duration
		viol := func(class, detail string) {
			if len(res.Violations) == 0 {
				res.Violations = append(res.Violations, netsim.Violation{Invariant: "C15/" + class, Class: "C15/" + class, Detail: detail})
			}
		}
		topicBytes := func(i int) []byte { return sha([]byte(fmt.Sprintf("c15-topic-%d", i))) }
		// a topic's buffered data is surely alive / surely expired at time x
		sureAlive := func(tp *c15Topic, x time.Duration) bool { return x-tp.lastUsed < expire-sweep }
		hi := func(tp *c15Topic) time.Duration {
			if tp.lastUsedHi > tp.lastUsed {
				return tp.lastUsedHi
			}
			return tp.lastUsed
		}
		expiredSince := func(base, x time.Duration) bool {
			// "eventually discarded": expired for good once the GC had its chances - three sends in distinct sweep
			// periods, all later than two expiry periods + 2 sweeps (the collector may run as rarely as once per expiry period)
			grace := 2*expire + 2*sweep
			if x-base <= grace {
				return false
			}
			chances := 0
			var last time.Duration = -1
			for _, st := range sendTimes {
				if st-base > grace && st < x && (last < 0 || st-last >= sweep) {
					chances++
					last = st
				}
			}
			return chances >= 3
		}
		sureExpired := func(tp *c15Topic, x time.Duration) bool { return expiredSince(hi(tp), x) }
		// the same for one buffered message: shed traffic of a sender that is surely beyond the per-topic limit does
		// not keep the data alive (see c15Era)
		msgExpired := func(tp *c15Topic, m *c15Msg, x time.Duration) bool {
			if m.era < len(tp.eras) {
				return expiredSince(tp.eras[m.era].hi, x)
			}
			return sureExpired(tp, x)
		}
		inFlight := func(s uint16, x time.Duration, sure bool) int {
			n := 0
			for _, tp := range topics {
				if tp.started {
					continue
				}
				surely, possibly := false, false
				for _, m := range tp.msgs {
					if m.sender == s && m.verdict == "must" {
						surely = true
					}
					if m.sender == s && m.verdict != "mustnot" {
						possibly = true
					}
				}
				if sure && surely && sureAlive(tp, x) {
					n++
				}
				if !sure && possibly && !sureExpired(tp, x) {
					n++
				}
			}
			return n
		}
		seq := 0
		var acts []netsim.Action
		for oi, op := range ops {
			if len(res.Violations) > 0 {
				break
			}
			if op.Kind == "skip" {
				continue
			}
			acts = append(acts, netsim.Action{K: fmt.Sprintf("op:%d", oi), C: op.Kind})
			synctest.Wait()
			prng.Heartbeat.Add(1)
			switch op.Kind {
			case "idle":
				time.Sleep(time.Duration(op.IdleMs)*time.Millisecond + 29*time.Microsecond)
				res.Probes["idle-ops"]++
			case "recv":
				tp := topics[op.Topic]
				if tp == nil {
					tp = &c15Topic{}
					topics[op.Topic] = tp
				}
				for b := 0; b < op.Burst; b++ {
					seq++
					m := &c15Msg{id: fmt.Sprintf("%d/%d/%d", op.Topic, op.Sender, seq), sender: op.Sender, at: now(), atOp: oi}
					before := len(h.log)
					if tp.started {
						// forwarded immediately while the topic is fresh; once its bookkeeping may have expired either is fine
						box.HandleMessage(&tss.IncMessage{MsgType: uint8(tss.MsgTypeMPC), Topic: topicBytes(op.Topic), Source: op.Sender, Data: []byte(m.id)})
						if now()-tp.lastSentAt < expire-sweep && len(h.log) != before+1 {
							viol("not-forwarded", fmt.Sprintf("message %s arrived %v after the last send on its started topic and was not handed over at once", m.id, now()-tp.lastSentAt))
						}
						if len(h.log) == before {
							// it was buffered again: the topic's start has been forgotten; treat it as a fresh, unstarted topic
							tp.started = false
							tp.msgs = nil
							tp.eras = nil
							m.verdict = "either"
							tp.msgs = append(tp.msgs, m)
							tp.lastUsed = now()
							tp.lastUsedHi = now()
						}
						continue
					}
					// limits at arrival
					perSender, perSenderSure := 0, 0
					for _, o := range tp.msgs {
						if o.sender == op.Sender && o.verdict != "mustnot" {
							perSender++
						}
						if o.sender == op.Sender && o.verdict == "must" {
							perSenderSure++
						}
					}
					alreadyIn := perSender > 0
					fresh := sureAlive(tp, now()) // older data of this topic has surely not been collected
					if len(tp.eras) == 0 || (!fresh && len(tp.msgs) > 0) {
						tp.eras = append(tp.eras, &c15Era{stored: map[uint16]int{}, after: map[uint16]int{}})
					}
					m.era = len(tp.eras) - 1
					for _, e := range tp.eras {
						// the limit holds give or take one: with the limit surely stored and two more arrivals gone by, every
						// further arrival of this sender is shed for sure as long as the era's buffer exists
						if e.stored[op.Sender] >= c15PerSender && e.after[op.Sender] >= 2 {
							res.Probes["surely-shed-arrival"]++
						} else {
							e.hi = now()
						}
						if e.stored[op.Sender] >= c15PerSender {
							e.after[op.Sender]++
						}
					}
					upper := inFlight(op.Sender, now(), false) // topics possibly counted against the sender (this one included if it holds data)
					lower := inFlight(op.Sender, now(), true)  // topics surely counted
					switch {
					case fresh && perSenderSure > c15PerSender+1:
						m.verdict = "mustnot"
					case perSender >= c15PerSender:
						m.verdict = "either"
					case alreadyIn && fresh && upper <= cfg.MaxTopics:
						m.verdict = "must"
					case !alreadyIn && upper < cfg.MaxTopics:
						m.verdict = "must"
					case !alreadyIn && lower > cfg.MaxTopics+1:
						m.verdict = "mustnot"
					default:
						m.verdict = "either"
					}
					res.Probes["recv-"+m.verdict]++
					box.HandleMessage(&tss.IncMessage{MsgType: uint8(tss.MsgTypeMPC), Topic: topicBytes(op.Topic), Source: op.Sender, Data: []byte(m.id)})
					if len(h.log) != before {
						viol("premature", fmt.Sprintf("message %s was handed over although the local party has not sent on its topic", m.id))
					}
					if !sureAlive(tp, now()) && len(tp.msgs) > 0 {
						// older data of this topic may or may not have expired: anything about them is acceptable from now on
						for _, o := range tp.msgs {
							if o.verdict == "must" {
								o.verdict = "either"
							}
						}
					}
					tp.msgs = append(tp.msgs, m)
					if m.verdict == "must" {
						tp.lastUsed = now()
						tp.eras[m.era].stored[op.Sender]++
					}
					tp.lastUsedHi = now()
				}
			case "send":
				tp := topics[op.Topic]
				if tp == nil {
					tp = &c15Topic{}
					topics[op.Topic] = tp
				}
				before := len(h.log)
				x := now()
				alive, expired := sureAlive(tp, x), sureExpired(tp, x)
				box.Send(uint8(tss.MsgTypeMPC), topicBytes(op.Topic), []byte("proto"), 1)
				sendTimes = append(sendTimes, x)
				released := map[string]int{}
				for _, id := range h.log[before:] {
					released[id]++
				}
				if !tp.started {
					for _, m := range tp.msgs {
						n := released[m.id]
						delete(released, m.id)
						switch {
						case n > 1:
							viol("duplicate", fmt.Sprintf("message %s was handed over %d times", m.id, n))
						case (expired || msgExpired(tp, m, x)) && n > 0:
							viol("not-discarded", fmt.Sprintf("topic %d was idle for %v (expiry %v, sweep %v) and %d sends in distinct sweep periods happened after its expiry, but its buffered message %s was still released when the topic started", op.Topic, x-tp.lastUsed, expire, sweep, len(sendTimes), m.id))
						case alive && m.verdict == "must" && n == 0:
							viol("throttled", fmt.Sprintf("message %s of sender %d arrived while the sender was within the limits (max %d topics in flight) and its topic started %v after its last message (expiry %v), but it was not handed over; warnings: %s", m.id, m.sender, cfg.MaxTopics, x-tp.lastUsed, expire, lg.Summary("W")))
						case m.verdict == "mustnot" && n > 0:
							viol("limit-exceeded", fmt.Sprintf("message %s was buffered although its sender was beyond the limits at arrival", m.id))
						}
						if n > 0 {
							res.Probes["released"]++
							// the message was in the buffer from its arrival until now
							k := heldKey{m.sender, op.Topic}
							if iv, ok := held[k]; !ok || m.atOp < iv[0] {
								held[k] = [2]int{m.atOp, oi}
							}
						} else {
							res.Probes["not-released"]++
						}
					}
					for id := range released {
						viol("foreign-release", fmt.Sprintf("starting topic %d released %s", op.Topic, id))
					}
					if expired {
						res.Probes["started-after-sure-expiry"]++
					}
				} else if len(h.log) != before {
					viol("foreign-release", fmt.Sprintf("a further send on started topic %d released %v", op.Topic, h.log[before:]))
				}
				tp.started = true
				tp.startedAt = x
				tp.lastSentAt = x
				tp.msgs = nil
				tp.eras = nil
				// the number of topics a sender has data buffered for at any one time stays within the limit, give or
				// take one: what is released was in the buffer from its arrival until its release
				for k, iv := range held {
					delete(held, k)
					// intervals of one topic never overlap (its data is released wholesale), so the number of topics a
					// sender occupies at instant t is #(from <= t) - #(to <= t) over the sender's intervals; it can only
					// have grown at the beginning of an interval that lies inside the new one
					sv := occ[k.sender]
					if sv == nil {
						sv = &occupancy{}
						occ[k.sender] = sv
					}
					sv.froms = insertSorted(sv.froms, iv[0])
					sv.tos = insertSorted(sv.tos, iv[1])
					lo := sort.Search(len(sv.froms), func(i int) bool { return sv.froms[i] >= iv[0] })
					for i := lo; i < len(sv.froms) && sv.froms[i] < iv[1]; i++ {
						t := sv.froms[i]
						n := sort.Search(len(sv.froms), func(i int) bool { return sv.froms[i] > t }) - sort.Search(len(sv.tos), func(i int) bool { return sv.tos[i] > t })
						if n > cfg.MaxTopics+1 && len(res.Violations) == 0 {
							viol("topic-limit-exceeded", fmt.Sprintf("sender %d had data buffered for %d topics at the same time (after operation %d; every one of them was released later, the last one now, on topic %d), the limit is %d (give or take one)", k.sender, n, t, k.topic, cfg.MaxTopics))
						}
					}
				}
			}
		}
		res.Actions = acts
		res.Steps = len(acts)
		res.SimMs = int64(now() / time.Millisecond)
		func() {
			defer func() { recover() }()
			box.Stop()
		}()
	})
	var sb strings.Builder
	for _, op := range cfg.Ops {
		fmt.Fprintf(&sb, "%s%d/%d/%d/%d;", op.Kind, op.Sender, op.Topic, op.Burst, op.IdleMs/500)
	}
	res.Fingerprint = fmt.Sprintf("%x", prng.Hash64([]byte(sb.String()), []byte(res.ConfigKey)))
	res.ContentHash = res.Fingerprint
	res.Nontrivial = res.Probes["released"] > 0 && res.Probes["idle-ops"] > 0
	var smp []string
	for i, op := range cfg.Ops {
		if i >= 40 {
			smp = append(smp, "…")
			break
		}
		switch op.Kind {
		case "recv":
			smp = append(smp, fmt.Sprintf("recv(s%d,t%d,x%d)", op.Sender, op.Topic, op.Burst))
		case "send":
			smp = append(smp, fmt.Sprintf("send(t%d)", op.Topic))
		default:
			smp = append(smp, fmt.Sprintf("idle(%dms)", op.IdleMs))
		}
	}
	res.Sample = strings.Join(smp, " ")
	return res
}

func init() {
	register(&Check{ID: "C15", Run: runC15})
}
