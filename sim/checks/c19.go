package checks

import (
	"context"
	"crypto/ecdsa"
	"crypto/ed25519"
	"crypto/x509"
	"encoding/json"
	"fmt"
	"sort"
	"sync"
	"testing"
	"time"

	"verif/sim/netsim"
	"verif/sim/prng"

	"github.com/golang/protobuf/proto"
	"github.com/golang/protobuf/ptypes/any"

	ecdsa_scheme "github.com/IBM/TSS/mpc/binance/ecdsa"
	eddsa_scheme "github.com/IBM/TSS/mpc/binance/eddsa"
	tss "github.com/IBM/TSS/types"
)

// C19 — tss-lib adapters: receiver-side classification, sender binding,
// signature only for the requested digest. Also the orchestrated-signing half
// of C01 (the same runs, judged by completion and signature validity).

type AdapterCfg struct {
	Deploy   DeployCfg `json:"deploy"`
	Strategy string    `json:"strategy"`
	N        int       `json:"n"`
	T        int       `json:"t"` // tss-lib threshold: t+1 signers
	Digest   []byte    `json:"digest"`
	Topic    string    `json:"topic"`
	Steal    uint16    `json:"steal"` // a participant that re-sends other parties' payloads under its own identity (0: nobody)
	// Direct: the adapters of a key generation are wired to one another through the simulator, without the
	// orchestrator (whose filter screens non-members before the adapter sees them): the adapter itself must bind a
	// message to its transport sender. Outsiders are node identifiers that are not parties of the session; they
	// re-send copies of the parties' protocol messages under their own (authenticated) identity.
	// TwoSessions: after the key generation two signing sessions run at the same time, on two topics and two
	// digests, among signer subsets that differ where the threshold leaves a choice
	TwoSessions bool     `json:"twoSessions,omitempty"`
	Direct      bool     `json:"direct,omitempty"`
	Outsiders   []uint16 `json:"outsiders,omitempty"`
}

func genAdapter(seed uint64, tier string, pECDSA float64) AdapterCfg {
	r := prng.Derive(seed, "cfg")
	nts := [][2]int{{2, 1}, {3, 1}, {3, 2}, {4, 2}, {4, 3}}
	nt := nts[r.Intn(len(nts))]
	backend := "eddsa"
	if r.Bool(pECDSA) {
		backend = "ecdsa"
		nt = [][2]int{{2, 1}, {3, 2}, {3, 1}}[r.Intn(3)]
	}
	n, t := nt[0], nt[1]
	var ids []uint16
	for i := 1; i <= n; i++ {
		ids = append(ids, uint16(i))
	}
	c := AdapterCfg{N: n, T: t, Topic: fmt.Sprintf("topic-%d", r.Intn(1000))}
	c.Deploy = DeployCfg{IDs: ids, Silent: r.Bool(0.4), Threshold: t, Backend: backend, PickUnsorted: r.Bool(0.3)}
	c.Strategy = pickStr(r, []string{"uniform", "fifo", "bursty", "acks-first", "acks-last", "starve-node", "lifo-links", "pct"})
	switch r.Intn(7) {
	case 6:
		c.Digest = r.Bytes(r.Range(0, 3)) // shorter than any log prefix, incl. empty
	case 0:
		c.Digest = append([]byte{0}, r.Bytes(31)...) // leading zero byte
	case 1:
		c.Digest = append([]byte{0, 0}, r.Bytes(30)...)
	case 2:
		c.Digest = r.Bytes(r.Range(1, 20)) // short
	case 3:
		c.Digest = r.Bytes(64)
	default:
		c.Digest = r.Bytes(32)
	}
	if r.Bool(0.2) && backend == "eddsa" {
		c.Steal = ids[r.Intn(n)]
	}
	// a third of the runs: small non-contiguous identifiers (drawn last: the other choices of a seed stay)
	if r.Bool(0.33) {
		seen := map[uint16]bool{}
		var sp []uint16
		for len(sp) < n {
			id := uint16(r.Range(1, 60))
			if !seen[id] {
				seen[id] = true
				sp = append(sp, id)
			}
		}
		sort.Slice(sp, func(i, j int) bool { return sp[i] < sp[j] })
		if c.Steal != 0 {
			c.Steal = sp[c.Steal-1]
		}
		c.Deploy.IDs = sp
	}
	c.TwoSessions = backend == "eddsa" && t+1 < n && c.Steal == 0 && prng.Derive(seed, "two-sessions").Bool(0.5)
	// a quarter of the runs (half of the ECDSA ones): adapter-to-adapter key generation with non-member senders
	if rd := prng.Derive(seed, "direct"); rd.Bool(0.25) || (backend == "ecdsa" && rd.Bool(0.34)) {
		c.Direct = true
		c.TwoSessions = false
		c.Steal = 0
		// spread the parties out so that there is room for outsiders below, between and above them
		next := uint16(0)
		ids := make([]uint16, n)
		for i := range ids {
			next += uint16(rd.Range(2, 9))
			ids[i] = next
		}
		c.Deploy.IDs = ids
		isMember := map[uint16]bool{}
		for _, id := range ids {
			isMember[id] = true
		}
		for _, o := range []uint16{uint16(rd.Intn(int(ids[0]))), ids[0] + 1, ids[n-1] - 1, ids[n-1] + uint16(rd.Range(1, 5))} {
			if !isMember[o] {
				c.Outsiders = append(c.Outsiders, o)
			}
		}
	}
	return c
}

type adapterEvent struct {
	node    uint16
	phase   string // kg | sg
	payload []byte
	bcast   bool
	to      uint16
}

type adapterRec struct {
	mu     sync.Mutex
	events []adapterEvent
}

type adapterProxyKG struct {
	tss.KeyGenerator
	node uint16
	rec  *adapterRec
}

func (p *adapterProxyKG) Init(parties []uint16, threshold int, sendMsg func(msg []byte, isBroadcast bool, to uint16)) {
	p.KeyGenerator.Init(parties, threshold, func(msg []byte, b bool, to uint16) {
		p.rec.mu.Lock()
		p.rec.events = append(p.rec.events, adapterEvent{node: p.node, phase: "kg", payload: append([]byte(nil), msg...), bcast: b, to: to})
		p.rec.mu.Unlock()
		sendMsg(msg, b, to)
	})
}

type adapterProxySG struct {
	tss.Signer
	node uint16
	rec  *adapterRec
}

func (p *adapterProxySG) Init(parties []uint16, threshold int, sendMsg func(msg []byte, isBroadcast bool, to uint16)) {
	p.Signer.Init(parties, threshold, func(msg []byte, b bool, to uint16) {
		p.rec.mu.Lock()
		p.rec.events = append(p.rec.events, adapterEvent{node: p.node, phase: "sg", payload: append([]byte(nil), msg...), bcast: b, to: to})
		p.rec.mu.Unlock()
		sendMsg(msg, b, to)
	})
}

func adapterFactories(d *Deployment, id uint16, name string) (tss.KeyGenFactory, tss.SignerFactory) {
	mkKG := func(fid uint16) tss.KeyGenerator {
		if name == "ecdsa" {
			return ecdsa_scheme.NewParty(fid, d.Log)
		}
		return eddsa_scheme.NewParty(fid, d.Log)
	}
	mkSG := func(fid uint16) tss.Signer {
		if name == "ecdsa" {
			return ecdsa_scheme.NewParty(fid, d.Log)
		}
		return eddsa_scheme.NewParty(fid, d.Log)
	}
	kgf := func(fid uint16) tss.KeyGenerator {
		kg := mkKG(fid)
		if d.WrapKG != nil {
			return d.WrapKG(id, kg)
		}
		return kg
	}
	sf := func(fid uint16) tss.Signer {
		sg := mkSG(fid)
		if d.WrapSG != nil {
			return d.WrapSG(id, sg)
		}
		return sg
	}
	return kgf, sf
}

type adapterOut struct {
	violations []netsim.Violation // classes without property prefix: "<kind>"
	rec        *adapterRec
	sigs       map[uint16][]byte
	pk         []byte
	completed  bool
	msgTypes   int
}

// runAdapterDirect executes a key generation of adapters wired to one another through the simulator, while
// non-members re-send copies of the parties' messages under their own identity. Every party is honest and every
// message is delivered: the key generation must succeed with identical public keys, whatever the non-members send.
func runAdapterDirect(t *testing.T, spec RunSpec, cfg AdapterCfg, res *RunResult, out *adapterOut) {
	v := func(kind, detail string) {
		out.violations = append(out.violations, netsim.Violation{Invariant: kind, Class: kind + "/" + cfg.Deploy.Backend, Detail: detail})
	}
	bubble(t, func() {
		w := netsim.NewWorld(spec.Seed)
		trace(spec, res.Cfg, w)
		lg := NewCountLogger()
		topic := sha([]byte("direct"))
		type kgT interface {
			tss.KeyGenerator
			SetShareData([]byte) error
			ThresholdPK() ([]byte, error)
		}
		parties := map[uint16]kgT{}
		for _, id := range cfg.Deploy.IDs {
			var kg kgT
			if cfg.Deploy.Backend == "ecdsa" {
				kg = ecdsa_scheme.NewParty(id, lg)
			} else {
				kg = eddsa_scheme.NewParty(id, lg)
			}
			parties[id] = kg
		}
		isMember := map[uint16]bool{}
		for _, id := range cfg.Deploy.IDs {
			isMember[id] = true
		}
		for _, o := range cfg.Outsiders {
			w.AddNode(o, netsim.EndpointFunc(func(*tss.IncMessage) {}))
		}
		// every protocol message a party puts on the wire is also re-sent, unchanged, by some of the non-members
		w.Filter = func(m *netsim.Msg) []*netsim.Msg {
			outMsgs := []*netsim.Msg{m}
			if !isMember[m.From] || m.Tag != "" {
				return outMsgs
			}
			for _, o := range cfg.Outsiders {
				if prng.Hash64(m.Data, []byte{byte(o), byte(o >> 8), byte(m.To)})%3 == 0 {
					w.Inject(o, m.To, m.Type, m.Topic, m.Data, "outsider-payload")
					w.Faults["outsider-payload"]++
				}
			}
			return outMsgs
		}
		st := &starter{}
		timeout := 10 * time.Minute
		var cancels []context.CancelFunc
		for _, id := range cfg.Deploy.IDs {
			id := id
			kg := parties[id]
			send := w.SendFunc(id)
			var others []uint16
			for _, o := range cfg.Deploy.IDs {
				if o != id {
					others = append(others, o)
				}
			}
			kg.Init(cfg.Deploy.IDs, cfg.T, func(msg []byte, isBroadcast bool, to uint16) {
				if isBroadcast {
					send(uint8(tss.MsgTypeMPC), topic, msg, others...)
				} else {
					send(uint8(tss.MsgTypeMPC), topic, msg, to)
				}
			})
			w.AddNode(id, netsim.EndpointFunc(func(inc *tss.IncMessage) {
				_, bcast, err := kg.ClassifyMsg(inc.Data)
				if err != nil {
					return
				}
				kg.OnMsg(inc.Data, inc.Source, bcast)
			}))
			st.add(fmt.Sprintf("start:kg:%d", id), id, 3, func() *netsim.Call {
				ctx, cancel := context.WithTimeout(context.Background(), timeout)
				cancels = append(cancels, cancel)
				return w.StartCall("KeyGen", id, func() ([]byte, error) { return kg.KeyGen(ctx) })
			})
		}
		sched, ss := scheduler(spec, cfg.Strategy)
		lim := netsim.RunLimits{MaxSteps: 300000, Horizon: 20 * time.Minute, FairAfterSteps: 8000, FairAfter: 3 * time.Minute}
		w.Propose = st.proposals
		if vv := w.Run(sched, lim, func() bool { return st.allDone(w) && quiet(w) }); vv != nil {
			out.violations = append(out.violations, *vv)
		}
		for _, p := range w.Panics {
			out.violations = append(out.violations, panicViolations(&netsim.World{Panics: []netsim.PanicRec{p}}, "panic")...)
		}
		if len(out.violations) == 0 {
			if !st.allDone(w) {
				v("outsider-disturbed-session", fmt.Sprintf("key generation among honest parties %v did not finish while non-members %v re-sent copies of their messages: %s", cfg.Deploy.IDs, cfg.Outsiders, callSummary(st.calls())))
			} else {
				var pk0 []byte
				for _, c := range st.calls() {
					if c.Err != nil {
						v("outsider-disturbed-session", fmt.Sprintf("key generation among honest parties %v failed while non-members %v re-sent copies of their messages under their own identity (a message must be bound to its transport sender, and a sender that is no party of the session has no say): %s", cfg.Deploy.IDs, cfg.Outsiders, callSummary(st.calls())))
						break
					}
					kg := parties[c.Node]
					if err := kg.SetShareData(c.Out); err != nil {
						v("stored-data", fmt.Sprintf("party %d: stored data does not load: %v", c.Node, err))
						break
					}
					pk, err := kg.ThresholdPK()
					if err != nil {
						v("threshold-pk", "ThresholdPK: "+err.Error())
						break
					}
					if pk0 == nil {
						pk0 = pk
					} else if string(pk0) != string(pk) {
						v("public-material-differs", fmt.Sprintf("parties report different public keys after a key generation during which non-members %v re-sent copies of protocol messages", cfg.Outsiders))
						break
					}
				}
				out.completed = len(out.violations) == 0
			}
		}
		res.Nontrivial = w.Faults["outsider-payload"] > 0
		for _, c := range cancels {
			c()
		}
		time.Sleep(2 * time.Second)
		fillResult(res, w, ss)
	})
}

// runAdapter executes KeyGen then Sign with a tss-lib adapter through the full stack.
func runAdapter(t *testing.T, spec RunSpec, cfg AdapterCfg, res *RunResult) *adapterOut {
	out := &adapterOut{rec: &adapterRec{}, sigs: map[uint16][]byte{}}
	v := func(kind, detail string) {
		out.violations = append(out.violations, netsim.Violation{Invariant: kind, Class: kind + "/" + cfg.Deploy.Backend, Detail: detail})
	}
	if cfg.Direct {
		runAdapterDirect(t, spec, cfg, res, out)
		return out
	}
	bubble(t, func() {
		w := netsim.NewWorld(spec.Seed)
		trace(spec, res.Cfg, w)
		d := NewDeployment(w, cfg.Deploy)
		d.WrapKG = func(node uint16, kg tss.KeyGenerator) tss.KeyGenerator {
			return &adapterProxyKG{KeyGenerator: kg, node: node, rec: out.rec}
		}
		d.WrapSG = func(node uint16, sg tss.Signer) tss.Signer {
			return &adapterProxySG{Signer: sg, node: node, rec: out.rec}
		}
		d.Build()
		if cfg.Steal != 0 {
			// the thief re-sends every broadcast payload it receives under its own (authenticated) identity
			w.OnDeliver = func(m *netsim.Msg) {
				if m.To != cfg.Steal || !isMPC(m) || m.Tag != "" {
					return
				}
				wr, ok := ParseMPC(m.Data)
				if !ok || wr.IsAck {
					return
				}
				for _, id := range cfg.Deploy.IDs {
					if id != cfg.Steal && id != m.From {
						w.Inject(cfg.Steal, id, m.Type, m.Topic, m.Data, "byz-replay-foreign")
						w.Faults["byz-replay-foreign"]++
					}
				}
			}
		}
		sched, ss := scheduler(spec, cfg.Strategy)
		lim := netsim.RunLimits{MaxSteps: 300000, Horizon: 20 * time.Minute, FairAfterSteps: 8000, FairAfter: 3 * time.Minute}
		timeout := 10 * time.Minute
		phase := func(name string, st *starter) bool {
			w.Propose = st.proposals
			vv := w.Run(sched, lim, func() bool { return st.allDone(w) && quiet(w) })
			w.Propose = nil
			if vv != nil {
				out.violations = append(out.violations, *vv)
				return false
			}
			if w.PanicCount() > 0 {
				return false
			}
			if !st.allDone(w) {
				v("no-progress", fmt.Sprintf("%s did not finish under a fair schedule: %s", name, callSummary(st.calls())))
				return false
			}
			return true
		}
		st := &starter{}
		for _, id := range cfg.Deploy.IDs {
			st.add(fmt.Sprintf("start:kg:%d", id), id, 3, startKeyGen(d, id, cfg.N, cfg.T, timeout))
		}
		ok := phase("keygen", st)
		if ok {
			for _, c := range st.calls() {
				if c.Err != nil {
					if cfg.Steal == 0 {
						v("keygen-failed", "honest key generation returned an error: "+callSummary(st.calls()))
					}
					ok = false
					break
				}
				d.Parties[c.Node].SetStoredData(c.Out)
			}
		}
		if ok {
			pk, err := d.Parties[cfg.Deploy.IDs[0]].ThresholdPK()
			if err != nil {
				v("threshold-pk", "ThresholdPK: "+err.Error())
				ok = false
			}
			out.pk = pk
			for _, id := range cfg.Deploy.IDs[1:] {
				pk2, _ := d.Parties[id].ThresholdPK()
				if string(pk2) != string(pk) {
					v("public-material-differs", fmt.Sprintf("parties %d and %d report different threshold keys", cfg.Deploy.IDs[0], id))
					ok = false
				}
			}
		}
		if ok && cfg.TwoSessions {
			// two sessions at once: every signer of either must obtain a signature that verifies for ITS digest
			rs := prng.Derive(spec.Seed, "signers")
			topics := []string{cfg.Topic + "/A", cfg.Topic + "/B"}
			digests := [][]byte{cfg.Digest, sha(append([]byte("second"), cfg.Digest...))}
			st2 := &starter{}
			type sc struct {
				sess int
				p    *pendingStart
			}
			var scs []sc
			for si := range topics {
				for _, id := range signersFor(d, rs, topics[si]) {
					scs = append(scs, sc{si, st2.add(fmt.Sprintf("start:sg%d:%d", si, id), id, 3, startSign(d, id, digests[si], topics[si], timeout))})
				}
			}
			if phase("two concurrent signing sessions", st2) {
				for _, x := range scs {
					c := x.p.Call
					if c.Err != nil {
						v("sign-failed", "two concurrent signing sessions among authorised sets: "+callSummary(st2.calls()))
						break
					}
					if !verifyAdapterSig(cfg.Deploy.Backend, out.pk, digests[x.sess], c.Out) {
						v("signature-invalid", fmt.Sprintf("session %d of two concurrent signing sessions: the signature returned to node %d does not verify for the digest of that session", x.sess, c.Node))
						break
					}
					if verifyAdapterSig(cfg.Deploy.Backend, out.pk, digests[1-x.sess], c.Out) {
						v("signature-for-other-digest", fmt.Sprintf("session %d of two concurrent signing sessions: the signature returned to node %d verifies for the OTHER session's digest", x.sess, c.Node))
						break
					}
					if x.sess == 0 {
						out.sigs[c.Node] = c.Out
					}
				}
				out.completed = len(out.violations) == 0
			}
			ok = false // (the single-session phase below is this run's alternative)
		}
		if ok {
			signers := signersFor(d, prng.Derive(spec.Seed, "signers"), cfg.Topic)
			st2 := &starter{}
			for _, id := range signers {
				st2.add(fmt.Sprintf("start:sg:%d", id), id, 3, startSign(d, id, cfg.Digest, cfg.Topic, timeout))
			}
			if phase("sign", st2) {
				nerr := 0
				for _, c := range st2.calls() {
					if c.Err != nil {
						nerr++
					} else {
						out.sigs[c.Node] = c.Out
					}
				}
				if nerr > 0 && (cfg.Steal == 0 || nerr < len(st2.calls())) {
					// with a replaying participant the session may fail, but then for everybody
					v("sign-failed", "orchestrated signing among an authorised set failed: "+callSummary(st2.calls()))
				}
				out.completed = nerr == 0
			}
		}
		for _, p := range w.Panics {
			out.violations = append(out.violations, panicViolations(&netsim.World{Panics: []netsim.PanicRec{p}}, "panic")...)
		}
		inv, last := 0, -1
		for _, m := range w.Delivered {
			if m.ID < last {
				inv++
			}
			if m.ID > last {
				last = m.ID
			}
		}
		w.Probes["cross-link-inversions"] = inv
		res.Nontrivial = inv > 0
		d.Teardown()
		fillResult(res, w, ss)
	})
	return out
}

func verifyAdapterSig(backend string, pk, digest, sig []byte) bool {
	if backend == "eddsa" {
		if len(pk) != ed25519.PublicKeySize {
			return false
		}
		return ed25519.Verify(pk, digest, sig)
	}
	k, err := x509.ParsePKIXPublicKey(pk)
	if err != nil {
		return false
	}
	epk, ok := k.(*ecdsa.PublicKey)
	if !ok {
		return false
	}
	return ecdsa.VerifyASN1(epk, digest, sig)
}

// signatureOracle: every returned signature verifies for the requested digest and for no other sampled digest.
func signatureOracle(cfg AdapterCfg, out *adapterOut, seed uint64) (kind, detail string) {
	r := prng.Derive(seed, "otherdigests")
	ids := make([]uint16, 0, len(out.sigs))
	for id := range out.sigs {
		ids = append(ids, id)
	}
	sort.Slice(ids, func(i, j int) bool { return ids[i] < ids[j] })
	for _, id := range ids {
		sig := out.sigs[id]
		if !verifyAdapterSig(cfg.Deploy.Backend, out.pk, cfg.Digest, sig) {
			return "signature-invalid", fmt.Sprintf("the signature returned to node %d does not verify for the requested digest %x (len %d) under the generated key", id, cfg.Digest, len(cfg.Digest))
		}
		others := [][]byte{r.Bytes(32), append([]byte{0}, cfg.Digest...), sha(cfg.Digest)}
		if len(cfg.Digest) > 1 {
			others = append(others, cfg.Digest[1:], cfg.Digest[:len(cfg.Digest)-1])
		}
		for _, o := range others {
			if string(o) != string(cfg.Digest) && verifyAdapterSig(cfg.Deploy.Backend, out.pk, o, sig) {
				if cfg.Deploy.Backend == "ecdsa" && len(o) != len(cfg.Digest) {
					continue // ECDSA reads the digest as an integer: zero-extended encodings of one integer are one digest
				}
				return "signature-for-other-digest", fmt.Sprintf("the signature returned to node %d for digest %x also verifies for digest %x", id, cfg.Digest, o)
			}
		}
	}
	return "", ""
}

// classificationOracle: receiver-side classification agrees with the library's routing; distinct
// broadcast-class types of one phase have distinct rounds.
func classificationOracle(cfg AdapterCfg, out *adapterOut) (kind, detail string, types int) {
	lg := NewCountLogger()
	var cls interface {
		ClassifyMsg([]byte) (uint8, bool, error)
	}
	if cfg.Deploy.Backend == "ecdsa" {
		cls = ecdsa_scheme.NewParty(99, lg)
	} else {
		cls = eddsa_scheme.NewParty(99, lg)
	}
	type tr struct {
		phase string
		round uint8
	}
	roundOwner := map[tr]string{}
	seen := map[string]bool{}
	for _, e := range out.rec.events {
		round, bc, err := cls.ClassifyMsg(e.payload)
		var a any.Any
		url := "?"
		if proto.Unmarshal(e.payload, &a) == nil {
			url = a.TypeUrl
		}
		seen[e.phase+"/"+url] = true
		if err != nil {
			return "classification-error", fmt.Sprintf("%s message %s emitted by node %d is rejected by the receiver-side classifier: %v", e.phase, url, e.node, err), len(seen)
		}
		if bc != e.bcast {
			return "classification-mismatch", fmt.Sprintf("%s message %s: the library routes it with broadcast=%v, the receiver classifies it as broadcast=%v", e.phase, url, e.bcast, bc), len(seen)
		}
		if bc {
			k := tr{e.phase, round}
			if o, ok := roundOwner[k]; ok && o != url {
				return "round-collision", fmt.Sprintf("%s: broadcast-class message types %s and %s share round %d", e.phase, o, url, round), len(seen)
			}
			roundOwner[k] = url
		}
	}
	return "", "", len(seen)
}

func runC19(t *testing.T, spec RunSpec) *RunResult {
	var cfg AdapterCfg
	if spec.Cfg != nil {
		if err := json.Unmarshal(spec.Cfg, &cfg); err != nil {
			panic(err)
		}
	} else {
		p := 0.04
		if spec.Tier == "thorough" {
			p = 0.12
		}
		cfg = genAdapter(spec.Seed, spec.Tier, p)
	}
	res := &RunResult{Property: "C19", Seed: spec.Seed, Cfg: mustJSON(cfg), Strategy: cfg.Strategy}
	mode := "loud"
	if cfg.Deploy.Silent {
		mode = "silent"
	}
	res.ConfigKey = fmt.Sprintf("%s n=%d t=%d %s digestlen=%d lead0=%v steal=%v sparse-ids=%v two-sessions=%v", cfg.Deploy.Backend, cfg.N, cfg.T, mode, len(cfg.Digest), len(cfg.Digest) > 0 && cfg.Digest[0] == 0, cfg.Steal != 0, int(cfg.Deploy.IDs[len(cfg.Deploy.IDs)-1]) != len(cfg.Deploy.IDs), cfg.TwoSessions)
	out := runAdapter(t, spec, cfg, res)
	for _, v := range out.violations {
		v.Invariant = "C19/" + v.Invariant
		if len(v.Class) < 6 || v.Class[:6] != "panic/" {
			v.Class = "C19/" + v.Class
		}
		res.Violations = append(res.Violations, v)
	}
	if len(res.Violations) == 0 && !cfg.Direct {
		k, d, n := classificationOracle(cfg, out)
		res.Probes["message-types-seen"] = n
		if k != "" {
			res.Violations = append(res.Violations, netsim.Violation{Invariant: "C19/" + k, Class: "C19/" + k + "/" + cfg.Deploy.Backend, Detail: d})
		}
	}
	if len(res.Violations) == 0 && len(out.sigs) > 0 {
		if k, d := signatureOracle(cfg, out, spec.Seed); k != "" {
			res.Violations = append(res.Violations, netsim.Violation{Invariant: "C19/" + k, Class: "C19/" + k + "/" + cfg.Deploy.Backend, Detail: d})
		}
		res.Probes["signatures-checked"] = len(out.sigs)
	}
	if cfg.Direct {
		res.ConfigKey = fmt.Sprintf("%s n=%d t=%d adapter-to-adapter outsiders=%d", cfg.Deploy.Backend, cfg.N, cfg.T, len(cfg.Outsiders))
		res.Nontrivial = res.Nontrivial && out.completed
		return res
	}
	res.Nontrivial = res.Nontrivial && len(out.sigs) > 0
	return res
}

func init() {
	register(&Check{ID: "C19", Run: runC19})
}
