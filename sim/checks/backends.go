package checks

import (
	tss "github.com/IBM/TSS/types"
)

// extraBackend builds factories for the backends other than scripted and bls.
func extraBackend(d *Deployment, id uint16, name string) (tss.KeyGenFactory, tss.SignerFactory) {
	panic("unknown backend " + name)
}
