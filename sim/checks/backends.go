package checks

import (
	math "github.com/IBM/mathlib"

	"github.com/IBM/TSS/mpc/ps"
	tss "github.com/IBM/TSS/types"
)

// PSCurve is the curve the integration tests of the repository use for PS.
var PSCurve = math.Curves[1]

// extraBackend builds factories for the backends other than scripted and bls.
func extraBackend(d *Deployment, id uint16, name string) (tss.KeyGenFactory, tss.SignerFactory) {
	switch name {
	case "ps":
		msgLen := d.Cfg.PSMsgLen
		if msgLen == 0 {
			msgLen = 2
		}
		kgf := func(fid uint16) tss.KeyGenerator {
			b := &ps.TPS{Logger: d.Log, Party: fid, Curve: PSCurve, MessageLength: msgLen}
			if d.WrapKG != nil {
				return d.WrapKG(id, b)
			}
			return b
		}
		sf := func(fid uint16) tss.Signer {
			b := &ps.TPS{Logger: d.Log, Party: fid, Curve: PSCurve, MessageLength: msgLen}
			if d.WrapSG != nil {
				return d.WrapSG(id, b)
			}
			return b
		}
		return kgf, sf
	}
	if name == "eddsa" || name == "ecdsa" {
		return adapterFactories(d, id, name)
	}
	panic("unknown backend " + name)
}
