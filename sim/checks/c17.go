//go:build verif_connsim

package checks

import (
	"bytes"
	"encoding/json"
	"fmt"
	"sort"
	"strings"
	"testing"
	"testing/synctest"
	"time"

	"verif/sim/netsim"
	"verif/sim/prng"

	comm "github.com/IBM/TSS/net"
)

// C17 — the transport frames faithfully and isolates a failing peer.

type C17Send struct {
	Type  uint8 `json:"type"`
	Len   int   `json:"len"`
	To    []int `json:"to"`
	Topic bool  `json:"topic"`
}

type C17Cfg struct {
	N       int         `json:"n"`
	Domain  string      `json:"domain"`
	Senders [][]C17Send `json:"senders"` // per sending goroutine: party = 1 + index % N
	Fault   string      `json:"fault"`   // none | down | stall | garble | reset | flood-down | oversize | pieces
	Victim  int         `json:"victim"`
	At      int         `json:"at"` // step at which the fault is offered
	// fault "oversize": the announced length and the type of the offending frame (0: limit+1 under type 2)
	OverLen  uint32 `json:"over_len,omitempty"`
	OverType uint8  `json:"over_type,omitempty"`
}

// overLens: announced lengths beyond the limit, around the limit itself and around the places where a
// 32-bit (signed or unsigned) length computation wraps, with and without the 32 bytes of a topic added.
var overLens = []uint32{connMaxBuff + 1, connMaxBuff + 2, connMaxBuff + 31, connMaxBuff + 32, connMaxBuff + 33, 2 * connMaxBuff, 1 << 25,
	1<<31 - 33, 1<<31 - 32, 1<<31 - 1, 1 << 31, 1<<31 + 1, 1<<32 - 65, 1<<32 - 33, 1<<32 - 32, 1<<32 - 31, 1<<32 - 5, 1<<32 - 2, 1<<32 - 1}

const connMaxBuff = 1024 * 1024 * 20 // the documented size limit of a frame

func genC17(seed uint64, tier string) C17Cfg {
	r := prng.Derive(seed, "cfg")
	c := C17Cfg{N: r.Range(3, 4), Victim: 0, At: r.Intn(150)}
	if r.Bool(0.2) {
		c.Domain = "dom-" + fmt.Sprint(r.Intn(9))
	}
	c.Fault = pickStr(r, []string{"none", "none", "none", "down", "down-heal", "down-heal", "stall", "garble", "reset", "flood-down", "oversize", "pieces"})
	if c.Fault != "none" {
		c.Victim = 1 + r.Intn(c.N)
	}
	if c.Fault == "oversize" {
		c.OverLen = overLens[r.Intn(len(overLens))]
		c.OverType = []uint8{2, 2, 1, 0, 3, 200}[r.Intn(6)]
	}
	sizes := []int{0, 1, 31, 32, 33, 4095, 4096, 4097, 65535, 65536, 65537}
	big := []int{1 << 20}
	if tier == "thorough" {
		big = append(big, connMaxBuff-1, connMaxBuff)
	}
	ng := r.Range(2, 5)
	usedBig := false
	for g := 0; g < ng; g++ {
		from := 1 + g%c.N
		var seq []C17Send
		k := r.Range(2, 9)
		if c.Fault == "flood-down" && g == 0 {
			k = 1100
		}
		for i := 0; i < k; i++ {
			s := C17Send{Type: []uint8{2, 2, 1, 0, 3, 200}[r.Intn(6)], Len: sizes[r.Intn(len(sizes))]}
			if r.Bool(0.03) && !usedBig {
				s.Len = big[r.Intn(len(big))]
				usedBig = true
			}
			s.Topic = s.Type == 1 || s.Type == 2
			if c.Fault == "flood-down" && g == 0 {
				s.Len = r.Intn(40)
				s.To = []int{c.Victim}
				if from == c.Victim {
					s.To = []int{1 + c.Victim%c.N}
				}
			} else {
				for j := 1; j <= c.N; j++ {
					if j != from && r.Bool(0.6) {
						s.To = append(s.To, j)
					}
				}
				if len(s.To) == 0 {
					s.To = []int{1 + from%c.N}
				}
			}
			seq = append(seq, s)
		}
		c.Senders = append(c.Senders, seq)
	}
	return c
}

func c17Payload(g, i, n int) []byte {
	// unique, self-describing content
	b := make([]byte, n)
	hdr := []byte(fmt.Sprintf("g%d/m%d/", g, i))
	for k := range b {
		b[k] = hdr[k%len(hdr)] ^ byte(k/len(hdr))
	}
	return b
}

type c17Expect struct {
	g, i  int
	typ   uint8
	topic []byte
	data  []byte
}

func runC17(t *testing.T, spec RunSpec) *RunResult {
	var cfg C17Cfg
	if spec.Cfg != nil {
		if err := json.Unmarshal(spec.Cfg, &cfg); err != nil {
			panic(err)
		}
	} else {
		cfg = genC17(spec.Seed, spec.Tier)
	}
	res := &RunResult{Property: "C17", Seed: spec.Seed, Cfg: mustJSON(cfg), Strategy: "uniform"}
	nm, maxLen := 0, 0
	for _, s := range cfg.Senders {
		nm += len(s)
		for _, m := range s {
			if m.Len > maxLen {
				maxLen = m.Len
			}
		}
	}
	res.ConfigKey = fmt.Sprintf("n=%d senders=%d msgs=%d maxlen=%d fault=%s domain=%v", cfg.N, len(cfg.Senders), nm, maxLen, cfg.Fault, cfg.Domain != "")
	bubble(t, func() {
		cw := newConnWorld(spec.Seed, cfg.N, cfg.Domain)
		w := cw.w
		trace(spec, res.Cfg, w)
		sched, ss := scheduler(spec, "uniform")
		viol := func(class, detail string) {
			if len(res.Violations) < 3 {
				res.Violations = append(res.Violations, netsim.Violation{Invariant: "C17/" + class, Class: "C17/" + class + "/" + cfg.Fault, Detail: detail})
			}
		}
		victimHost := fmt.Sprintf("p%d.sim", cfg.Victim)
		if cfg.Fault == "down" || cfg.Fault == "flood-down" || cfg.Fault == "down-heal" {
			cw.net.Refuse[victimHost] = true
		}
		healed := false
		// expected[receiver] = messages addressed to it, grouped by sending goroutine in order
		expected := map[int]map[int][]c17Expect{}
		topicOf := func(g int) []byte { return sha([]byte(fmt.Sprintf("c17-topic-%d", g))) }
		type senderState struct {
			started bool
			done    bool
			panic   string
		}
		states := make([]*senderState, len(cfg.Senders))
		var props []netsim.Proposal
		for g, seq := range cfg.Senders {
			g, seq := g, seq
			from := 1 + g%cfg.N
			st := &senderState{}
			states[g] = st
			for i, s := range seq {
				var topic []byte
				if s.Topic {
					topic = topicOf(g)
				}
				for _, to := range s.To {
					if expected[to] == nil {
						expected[to] = map[int][]c17Expect{}
					}
					expected[to][g] = append(expected[to][g], c17Expect{g: g, i: i, typ: s.Type, topic: topic, data: c17Payload(g, i, s.Len)})
				}
			}
			props = append(props, netsim.Proposal{Key: fmt.Sprintf("start:sender:%d", g), Mandatory: true, Weight: 2, Fire: func() {
				st.started = true
				go func() {
					defer func() {
						if r := recover(); r != nil {
							st.panic = fmt.Sprint(r)
						}
						st.done = true
					}()
					for i, s := range seq {
						var topic []byte
						if s.Topic {
							topic = topicOf(g)
						}
						var to []uint16
						for _, x := range s.To {
							to = append(to, uint16(x))
						}
						cw.parties[from].remotes.Send(s.Type, topic, c17Payload(g, i, s.Len), to...)
					}
				}()
			}})
		}
		faultFired := false
		var rawDone bool
		w.Propose = func() []netsim.Proposal {
			var ps []netsim.Proposal
			for g, p := range props {
				if !states[g].started {
					ps = append(ps, p)
				}
			}
			ps = append(ps, cw.releaseProposals()...)
			if !faultFired && w.Step >= cfg.At {
				switch cfg.Fault {
				case "stall":
					// the victim stops reading: nothing sent towards it is released any more
					ps = append(ps, netsim.Proposal{Key: "fault:stall", Mandatory: true, Weight: 5, Fire: func() {
						faultFired = true
						w.Faults["stall"]++
					}})
				case "garble":
					for _, name := range cw.net.Releasable() {
						if strings.HasPrefix(name, victimHost+":") {
							name := name
							ps = append(ps, netsim.Proposal{Key: "fault:garble:" + name, Weight: 1, Fire: func() { faultFired = true; cw.net.SetFlip(name) }})
							break
						}
					}
				case "reset":
					for _, name := range cw.net.ConnNames() {
						if strings.HasPrefix(name, victimHost+":") && cw.net.Pipe(name+"/up").Written > 0 {
							name := name
							ps = append(ps, netsim.Proposal{Key: "fault:reset:" + name, Weight: 1, Fire: func() { faultFired = true; cw.net.Reset(name) }})
							break
						}
					}
				case "down-heal":
					// the unreachable peer comes up: everything that was accepted for it while it was down is still owed to it
					allStarted := true
					for _, st := range states {
						if !st.started {
							allStarted = false
						}
					}
					if allStarted && w.Now() > 3*time.Second {
						ps = append(ps, netsim.Proposal{Key: "fault:heal", Mandatory: true, Weight: 2, Fire: func() {
							faultFired = true
							healed = true
							w.Faults["peer-comes-up"]++
							cw.net.Refuse[victimHost] = false
						}})
					}
				case "oversize", "pieces":
					ps = append(ps, netsim.Proposal{Key: "fault:" + cfg.Fault, Mandatory: true, Weight: 3, Fire: func() {
						faultFired = true
						w.Faults[cfg.Fault]++
						// a registered peer (its own TLS + valid handshake) that then frames by hand
						attacker := 1 + cfg.Victim%cfg.N
						go func() {
							defer func() { rawDone = true }()
							rc := cw.dialRaw(cfg.Victim, 2000+attacker)
							if rc.err != nil {
								return
							}
							id := cw.parties[attacker].ident
							hs := signHandshake(id, comm.Handshake{Domain: cfg.Domain, TLSBinding: rc.binding(), Identity: id.Cert, Timestamp: time.Now().Unix()})
							rc.conn.Write(handshakeFrame(hs.Bytes()))
							topic := sha([]byte("raw-topic"))
							if cfg.Fault == "pieces" {
								// valid frames written in odd pieces: short reads inside the header, the topic and the payload
								payload := []byte("written in pieces")
								f := frame(2, topic, payload, len(payload))
								for _, cut := range []int{1, 2, 2, 10, 25, 3} {
									if cut > len(f) {
										cut = len(f)
									}
									rc.conn.Write(f[:cut])
									f = f[cut:]
								}
								rc.conn.Write(f)
								rc.conn.Write(frame(2, topic, []byte("second"), 6))
							} else {
								ol, ot := int(cfg.OverLen), cfg.OverType
								if ol == 0 {
									ol, ot = connMaxBuff+1, 2
								}
								ft := topic
								if ot != 1 && ot != 2 {
									ft = nil
								}
								rc.conn.Write(frame(ot, ft, []byte("announced-too-big"), ol))
								rc.conn.Write(frame(2, topic, []byte("after-oversize"), 14))
							}
						}()
					}})
				}
			}
			if cfg.Fault == "stall" && faultFired {
				// filter: keep pipes towards the victim unreleased
				var keep []netsim.Proposal
				for _, p := range ps {
					if strings.HasPrefix(p.Key, "r:"+victimHost+":") && strings.HasSuffix(p.Key, "/up") {
						continue
					}
					keep = append(keep, p)
				}
				ps = keep
			}
			return ps
		}
		healthy := func(id int) bool {
			return cfg.Fault == "none" || cfg.Fault == "oversize" || cfg.Fault == "pieces" || cfg.Fault == "down-heal" || id != cfg.Victim
		}
		complete := func() bool {
			for _, st := range states {
				if !st.started || (!st.done && cfg.Fault != "flood-down" && cfg.Fault != "stall" && cfg.Fault != "down") {
					return false
				}
			}
			if (cfg.Fault == "oversize" || cfg.Fault == "pieces") && !rawDone {
				return false
			}
			for to, byG := range expected {
				if !healthy(to) {
					continue
				}
				want := 0
				for g, l := range byG {
					if healthy(1+g%cfg.N) || true {
						want += len(l)
					}
				}
				got := 0
				for _, r := range cw.received(to) {
					if !bytes.HasPrefix(r.msg.Topic, sha([]byte("raw-topic"))[:4]) {
						got++
					}
				}
				if got < want && cfg.Fault != "garble" && cfg.Fault != "reset" {
					return false
				}
			}
			return cw.net.PendingBytes() == 0 || (cfg.Fault == "stall" && faultFired)
		}
		_ = healed
		horizon := 60 * time.Second
		if cfg.Fault == "flood-down" {
			horizon = 40 * time.Second
		}
		lim := netsim.RunLimits{MaxSteps: 400000, Horizon: horizon, FairAfterSteps: 200000}
		w.Run(sched, lim, complete)
		// give stalled / down scenarios the time in which the documented 10 s enqueue timer would fire
		if cfg.Fault == "flood-down" || cfg.Fault == "stall" || cfg.Fault == "down" {
			// a Send that also addresses the dead peer waits up to 10 s for its full queue before it drops the
			// message and goes on to the next destination: traffic to healthy peers is delayed, not stopped.
			// Bound: 10 s per message that the other goroutines address to the victim, plus slack.
			bound := 45 * time.Second
			for g, seq := range cfg.Senders {
				if cfg.Fault == "flood-down" && g == 0 {
					continue
				}
				for _, m := range seq {
					for _, to := range m.To {
						if to == cfg.Victim {
							bound += 10 * time.Second
						}
					}
				}
			}
			settled := func() bool {
				for _, st := range states {
					if !st.done && !(cfg.Fault == "flood-down" && st == states[0]) {
						return false
					}
				}
				return cw.net.PendingBytes() == 0
			}
			for i := 0; i < 400 && w.Now() < bound && !(w.Now() > 45*time.Second && settled()); i++ {
				time.Sleep(time.Second + 31*time.Microsecond)
				// drain everything that may flow (canonical order), so that only the fault holds traffic back
				for round := 0; round < 2000; round++ {
					synctest.Wait()
					prng.Heartbeat.Add(1)
					released := false
					for _, name := range cw.net.Releasable() {
						if !(cfg.Fault == "stall" && strings.HasPrefix(name, victimHost+":")) {
							cw.net.Release(name)
							released = true
						}
					}
					if !released {
						break
					}
				}
			}
		}
		for g, st := range states {
			if st.panic != "" {
				viol("panic", fmt.Sprintf("Send of goroutine %d (party %d) panicked: %s", g, 1+g%cfg.N, st.panic))
			}
		}
		res.Violations = append(res.Violations, panicViolations(w, "C17/panic")...)
		// compare what every party received with what was addressed to it: per (receiver, sending party) the
		// received sequence must be an interleaving of the sequences of that party's goroutines (identical
		// messages of different goroutines are interchangeable, hence a search over position tuples).
		rawTopic := sha([]byte("raw-topic"))
		lossy := cfg.Fault == "garble" || cfg.Fault == "reset"
		for _, to := range cw.ids {
			var rawSeen []string
			bySender := map[int][]comm.InMsg{}
			for _, r := range cw.received(to) {
				m := r.msg
				if bytes.Equal(m.Topic, rawTopic) || (cfg.Fault == "oversize" && (string(m.Data) == "after-oversize" || bytes.HasPrefix(m.Data, []byte("announced-too-big")))) {
					rawSeen = append(rawSeen, string(m.Data))
					continue
				}
				if m.Domain != cfg.Domain {
					viol("domain", fmt.Sprintf("party %d received a message with domain %q, expected %q", to, m.Domain, cfg.Domain))
				}
				bySender[int(m.From)] = append(bySender[int(m.From)], m)
			}
			for _, from := range cw.ids {
				var gs []int
				for g := range expected[to] {
					if 1+g%cfg.N == from {
						gs = append(gs, g)
					}
				}
				sort.Ints(gs)
				seq := bySender[from]
				match := func(e c17Expect, m comm.InMsg) bool {
					return e.typ == m.Type && bytes.Equal(e.data, m.Data) && bytes.Equal(e.topic, m.Topic)
				}
				type state string
				enc := func(pos []int) state { return state(fmt.Sprint(pos)) }
				cur := map[state][]int{enc(make([]int, len(gs))): make([]int, len(gs))}
				failedAt := -1
				for mi, m := range seq {
					next := map[state][]int{}
					for _, pos := range cur {
						for gi, g := range gs {
							l := expected[to][g]
							for k := pos[gi]; k < len(l); k++ {
								if match(l[k], m) {
									np := append([]int(nil), pos...)
									np[gi] = k + 1
									next[enc(np)] = np
								}
								if !lossy {
									break // without loss only the head of a goroutine's sequence may arrive
								}
							}
						}
					}
					if len(next) == 0 {
						failedAt = mi
						break
					}
					cur = next
				}
				if failedAt >= 0 {
					m := seq[failedAt]
					viol("corrupt-duplicate-or-reordered", fmt.Sprintf("party %d: message #%d received from party %d (type %d, %d bytes) cannot be explained by any interleaving of what the goroutines of party %d sent to it in order (corrupted, duplicated, misattributed or reordered)", to, failedAt, from, m.Type, len(m.Data), from))
					continue
				}
				// completeness
				total, best := 0, 0
				for _, g := range gs {
					total += len(expected[to][g])
				}
				for _, pos := range cur {
					n := 0
					for gi, g := range gs {
						if pos[gi] == len(expected[to][g]) {
							n += len(expected[to][g])
						} else {
							n += pos[gi]
						}
					}
					if n > best {
						best = n
					}
				}
				if len(seq) < total {
					switch {
					case lossy:
						w.Probes["lost-on-broken-connection"] += total - len(seq)
					case !healthy(to):
						w.Probes["undelivered-to-faulty-peer"] += total - len(seq)
					default:
						viol("not-delivered", fmt.Sprintf("party %d received %d of the %d messages that party %d sent to it (fault %s on party %d)", to, len(seq), total, from, cfg.Fault, cfg.Victim))
					}
				}
				_ = best
			}
			if to == cfg.Victim {
				switch cfg.Fault {
				case "pieces":
					if strings.Join(rawSeen, "|") != "written in pieces|second" {
						viol("short-read", fmt.Sprintf("frames written in odd pieces surfaced as %q", rawSeen))
					}
				case "oversize":
					if len(rawSeen) != 0 {
						viol("oversize-accepted", fmt.Sprintf("a frame of type %d announcing %d bytes (0: limit+1; limit %d) was not refused: %q surfaced", cfg.OverType, cfg.OverLen, connMaxBuff, rawSeen))
					}
				}
			}
		}
		w.Probes["messages-received"] = 0
		for _, id := range cw.ids {
			w.Probes["messages-received"] += len(cw.received(id))
		}
		res.Nontrivial = w.Probes["messages-received"] > 0 && cw.net.Faults["short-read-boundary"] > 0
		cw.teardown()
		fillResult(res, w, ss)
	})
	sort.Slice(res.Violations, func(i, j int) bool { return res.Violations[i].Class < res.Violations[j].Class })
	return res
}

func init() {
	register(&Check{ID: "C17", Run: runC17})
}
