package checks

import (
	"context"
	"fmt"
	"runtime/debug"
	"sync"
	"time"

	"verif/sim/prng"

	"github.com/IBM/TSS/mpc/bls"
	"github.com/IBM/TSS/mpc/ps"
	tss "github.com/IBM/TSS/types"
)

// Client-facing entry points (C10): structure-aware input mutation of valid
// objects produced in the same run. This part is input mutation, not schedule
// exploration, and is labelled so in the evidence.

// ---- a tiny DER tree, enough for the SEQUENCE / OCTET STRING objects of bls and ps

type derNode struct {
	tag      byte
	children []*derNode // constructed
	content  []byte     // primitive
}

func derParse(b []byte) (*derNode, []byte, bool) {
	if len(b) < 2 {
		return nil, nil, false
	}
	tag := b[0]
	l := int(b[1])
	off := 2
	if l&0x80 != 0 {
		n := l & 0x7f
		if n == 0 || n > 4 || len(b) < 2+n {
			return nil, nil, false
		}
		l = 0
		for i := 0; i < n; i++ {
			l = l<<8 | int(b[2+i])
		}
		off = 2 + n
	}
	if len(b) < off+l {
		return nil, nil, false
	}
	body := b[off : off+l]
	n := &derNode{tag: tag}
	if tag&0x20 != 0 {
		rest := body
		for len(rest) > 0 {
			c, r, ok := derParse(rest)
			if !ok {
				return nil, nil, false
			}
			n.children = append(n.children, c)
			rest = r
		}
	} else {
		n.content = append([]byte(nil), body...)
	}
	return n, b[off+l:], true
}

func derLen(l int) []byte {
	switch {
	case l < 0x80:
		return []byte{byte(l)}
	case l < 0x100:
		return []byte{0x81, byte(l)}
	case l < 0x10000:
		return []byte{0x82, byte(l >> 8), byte(l)}
	}
	return []byte{0x83, byte(l >> 16), byte(l >> 8), byte(l)}
}

func (n *derNode) encode() []byte {
	var body []byte
	if n.tag&0x20 != 0 {
		for _, c := range n.children {
			body = append(body, c.encode()...)
		}
	} else {
		body = n.content
	}
	return append(append([]byte{n.tag}, derLen(len(body))...), body...)
}

func (n *derNode) all(acc *[]*derNode) {
	*acc = append(*acc, n)
	for _, c := range n.children {
		c.all(acc)
	}
}

func (n *derNode) clone() *derNode {
	c := &derNode{tag: n.tag, content: append([]byte(nil), n.content...)}
	for _, ch := range n.children {
		c.children = append(c.children, ch.clone())
	}
	return c
}

// mutants returns structure-aware and byte-level mutations of a valid object.
func mutants(valid []byte, r *prng.Rand, count int) [][]byte {
	var out [][]byte
	// byte level: truncations (every length when short, sampled otherwise), extension, flips, empty
	out = append(out, nil, []byte{}, append(append([]byte(nil), valid...), 0), append(append([]byte(nil), valid...), r.Bytes(5)...))
	step := 1
	if len(valid) > 64 {
		step = len(valid) / 48
	}
	for l := 0; l < len(valid); l += step {
		out = append(out, valid[:l])
	}
	for i := 0; i < 12 && len(valid) > 0; i++ {
		m := append([]byte(nil), valid...)
		m[r.Intn(len(m))] ^= byte(1 << r.Intn(8))
		out = append(out, m)
	}
	for i := 0; i < 6 && len(valid) > 2; i++ {
		m := append([]byte(nil), valid...)
		m[r.Intn(min(len(m), 6))] = byte(r.Intn(256)) // header bytes: tags and lengths
		out = append(out, m)
	}
	// structure level
	root, _, ok := derParse(valid)
	if ok {
		for k := 0; k < count; k++ {
			t := root.clone()
			var nodes []*derNode
			t.all(&nodes)
			n := nodes[r.Intn(len(nodes))]
			switch r.Intn(9) {
			case 0: // drop a child
				if len(n.children) > 0 {
					i := r.Intn(len(n.children))
					n.children = append(n.children[:i:i], n.children[i+1:]...)
				}
			case 1: // drop all children
				n.children = nil
			case 2: // duplicate a child
				if len(n.children) > 0 {
					n.children = append(n.children, n.children[r.Intn(len(n.children))].clone())
				}
			case 3: // empty a leaf
				if n.tag&0x20 == 0 {
					n.content = nil
				}
			case 4: // truncate a leaf
				if n.tag&0x20 == 0 && len(n.content) > 0 {
					n.content = n.content[:r.Intn(len(n.content))]
				}
			case 5: // random leaf content of the same length
				if n.tag&0x20 == 0 {
					n.content = r.Bytes(len(n.content))
				}
			case 6: // swap two children
				if len(n.children) > 1 {
					i, j := r.Intn(len(n.children)), r.Intn(len(n.children))
					n.children[i], n.children[j] = n.children[j], n.children[i]
				}
			case 7: // mutate inside a nested DER object carried in an OCTET STRING
				if n.tag&0x20 == 0 {
					if inner, rest, ok := derParse(n.content); ok && len(rest) == 0 && len(inner.children) > 0 {
						i := r.Intn(len(inner.children))
						if r.Bool(0.5) {
							inner.children = append(inner.children[:i:i], inner.children[i+1:]...)
						} else {
							inner.children[i].content = nil
							inner.children[i].children = nil
						}
						n.content = inner.encode()
					}
				}
			case 8: // change the tag
				n.tag = []byte{0x04, 0x30, 0x02, 0x05, 0x0c}[r.Intn(5)]
				if n.tag&0x20 == 0 && n.content == nil {
					n.content = []byte{}
				}
			}
			out = append(out, t.encode())
		}
	}
	return out
}

// guarded runs f and reports a panic or a call that does not return.
func guarded(name string, f func()) (problem string) {
	done := make(chan string, 1)
	go func() {
		defer func() {
			if r := recover(); r != nil {
				done <- fmt.Sprintf("%s: panic: %v at %s", name, r, TopRepoFrame(string(debug.Stack())))
				return
			}
			done <- ""
		}()
		f()
	}()
	select {
	case p := <-done:
		return p
	case <-time.After(60 * time.Second):
		return name + ": call did not return within 60 s"
	}
}

// localDKG wires n backends directly to each other (no orchestrator) and runs a key generation.
func localDKG(n, t int, mk func(id uint16) tss.KeyGenerator) (map[uint16][]byte, error) {
	var ids []uint16
	for i := 1; i <= n; i++ {
		ids = append(ids, uint16(i))
	}
	inst := map[uint16]tss.KeyGenerator{}
	for _, id := range ids {
		inst[id] = mk(id)
	}
	for _, id := range ids {
		id := id
		inst[id].Init(ids, t, func(msg []byte, bcast bool, to uint16) {
			for _, o := range ids {
				if o == id || (!bcast && o != to) {
					continue
				}
				inst[o].OnMsg(append([]byte(nil), msg...), id, bcast)
			}
		})
	}
	ctx, cancel := context.WithTimeout(context.Background(), 60*time.Second)
	defer cancel()
	out := map[uint16][]byte{}
	var mu sync.Mutex
	var wg sync.WaitGroup
	var firstErr error
	for _, id := range ids {
		wg.Add(1)
		go func(id uint16) {
			defer wg.Done()
			b, err := inst[id].KeyGen(ctx)
			mu.Lock()
			defer mu.Unlock()
			if err != nil && firstErr == nil {
				firstErr = err
			}
			out[id] = b
		}(id)
	}
	wg.Wait()
	return out, firstErr
}

// entryPointMutations returns "" or the first problem found ("<entry point>: ...").
func entryPointMutations(seed uint64, res *RunResult) string {
	r := prng.Derive(seed, "entry")
	lg := NewCountLogger()
	n, t := 3, 2
	ids := []uint16{1, 2, 3}
	tried := 0
	defer func() { res.Probes["entry-point-mutants"] = tried }()

	// ---------- BLS
	shares, err := localDKG(n, t, func(id uint16) tss.KeyGenerator { return &bls.TBLS{Logger: lg, Party: id} })
	if err != nil {
		return "setup: local BLS DKG failed: " + err.Error()
	}
	signer := func(id uint16) *bls.TBLS {
		s := &bls.TBLS{Logger: lg, Party: id}
		s.Init(ids, t, nil)
		s.SetShareData(shares[id])
		return s
	}
	pp, _ := signer(1).ThresholdPK()
	dg := sha([]byte("entry"))
	s1, _ := signer(1).Sign(nil, dg)
	s2, _ := signer(2).Sign(nil, dg)
	var v0 bls.Verifier
	if err := v0.Init(pp); err != nil {
		return "setup: bls.Verifier.Init on valid parameters: " + err.Error()
	}
	agg, _ := v0.AggregateSignatures([][]byte{s1, s2}, []uint16{1, 2})
	for _, m := range mutants(pp, r, 60) {
		tried++
		m := m
		if p := guarded("bls.Verifier.Init", func() {
			var v bls.Verifier
			if v.Init(m) == nil {
				v.Verify(dg, agg)
			}
		}); p != "" {
			return p
		}
	}
	for _, m := range mutants(agg, r, 10) {
		tried++
		m := m
		if p := guarded("bls.Verifier.Verify", func() { v0.Verify(dg, m) }); p != "" {
			return p
		}
		if p := guarded("bls.Verifier.AggregateSignatures", func() { v0.AggregateSignatures([][]byte{m, s2}, []uint16{1, 2}) }); p != "" {
			return p
		}
	}

	// ---------- PS
	L := 2
	pshares, err := localDKG(n, t, func(id uint16) tss.KeyGenerator {
		return &ps.TPS{Logger: lg, Party: id, Curve: PSCurve, MessageLength: L}
	})
	if err != nil {
		return "setup: local PS DKG failed: " + err.Error()
	}
	psSigner := func(id uint16) *ps.TPS {
		s := &ps.TPS{Logger: lg, Party: id, Curve: PSCurve, MessageLength: L}
		s.Init(ids, t, nil)
		s.SetShareData(pshares[id])
		return s
	}
	tpk, _ := psSigner(1).ThresholdPK()
	var prover ps.Prover
	if err := prover.Init(PSCurve, L, tpk, ids); err != nil {
		return "setup: ps.Prover.Init: " + err.Error()
	}
	blind, secret := prover.Blind([][]byte{[]byte("a"), []byte("b")})
	req := blind.Bytes()
	part1, err := psSigner(1).Sign(nil, req)
	if err != nil {
		return "setup: TPS.Sign on a valid request: " + err.Error()
	}
	part2, _ := psSigner(2).Sign(nil, req)
	w1, err := prover.UnBlind(1, part1, &secret)
	if err != nil {
		return "setup: UnBlind: " + err.Error()
	}
	w2, _ := prover.UnBlind(2, part2, &secret)
	pok := prover.ProveKnowledgeOfSignature(&secret, []uint16{1, 2}, []ps.SignatureWitness{w1, w2})
	proof := pok.Bytes()
	var pv ps.Verifier
	if err := pv.Init(PSCurve, L, tpk); err != nil {
		return "setup: ps.Verifier.Init: " + err.Error()
	}
	if err := pv.Verify(proof); err != nil {
		return "setup: valid proof does not verify: " + err.Error()
	}
	s1ps := psSigner(1)
	for _, m := range mutants(req, r, 120) {
		tried++
		m := m
		if p := guarded("ps.TPS.Sign", func() { s1ps.Sign(nil, m) }); p != "" {
			return p
		}
	}
	for _, m := range mutants(proof, r, 120) {
		tried++
		m := m
		if p := guarded("ps.Verifier.Verify", func() { pv.Verify(m) }); p != "" {
			return p
		}
	}
	for _, m := range mutants(tpk, r, 60) {
		tried++
		m := m
		if p := guarded("ps.Verifier.Init", func() {
			var v ps.Verifier
			if v.Init(PSCurve, L, m) == nil {
				v.Verify(proof)
			}
		}); p != "" {
			return p
		}
		if p := guarded("ps.Prover.Init", func() {
			var pr ps.Prover
			if pr.Init(PSCurve, L, m, ids) == nil {
				// a prover initialised from unverified parameters goes on to blind and unblind
				b2, sec2 := pr.Blind([][]byte{[]byte("a"), []byte("b")})
				_ = b2
				pr.UnBlind(1, part1, &sec2)
			}
		}); p != "" {
			return p
		}
	}
	for _, m := range mutants(part1, r, 30) {
		tried++
		m := m
		if p := guarded("ps.Prover.UnBlind", func() { prover.UnBlind(1, m, &secret) }); p != "" {
			return p
		}
	}
	return ""
}
