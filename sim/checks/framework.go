// Package checks holds one seeded simulation check per property.
package checks

import (
	"crypto/sha256"
	"encoding/json"
	"fmt"
	"os"
	"sort"
	"strings"
	"testing"
	"testing/synctest"
	"time"

	"verif/sim/netsim"
	"verif/sim/prng"
)

type RunSpec struct {
	Property string          `json:"property"`
	Seed     uint64          `json:"seed"`
	Index    int             `json:"index"` // position of the run in its batch (enumerating checks use it)
	Tier     string          `json:"tier"`
	Cfg      json.RawMessage `json:"cfg,omitempty"`     // nil: generated from the seed
	Actions  []netsim.Action `json:"actions,omitempty"` // nil: seeded scheduler
	Scripted bool            `json:"scripted,omitempty"`
	Lenient  bool            `json:"lenient,omitempty"`
	// TraceFile, when set, receives the resolved configuration and every action
	// as soon as it is chosen, so that a run that kills the process can still be
	// turned into a replay file.
	TraceFile string `json:"-"`
}

// traceCfgOverride lets a composite check (C20) record its own configuration
// as the first line of the trace written by the sub-check it runs.
var traceCfgOverride json.RawMessage

// trace opens the incremental trace of a run (no-op without TraceFile).
func trace(spec RunSpec, cfg json.RawMessage, w *netsim.World) {
	if spec.TraceFile == "" {
		return
	}
	f, err := os.OpenFile(spec.TraceFile, os.O_CREATE|os.O_WRONLY|os.O_TRUNC, 0o644)
	if err != nil {
		return
	}
	if traceCfgOverride != nil {
		cfg = traceCfgOverride
	}
	fmt.Fprintf(f, "%s\n", cfg)
	if w != nil {
		w.ActionSink = func(a netsim.Action) {
			b, _ := json.Marshal(a)
			f.Write(append(b, '\n'))
		}
	}
}

type RunResult struct {
	Property    string             `json:"property"`
	Seed        uint64             `json:"seed"`
	Index       int                `json:"index"`
	Cfg         json.RawMessage    `json:"cfg"`
	Violations  []netsim.Violation `json:"violations,omitempty"`
	Actions     []netsim.Action    `json:"actions,omitempty"`
	Fingerprint string             `json:"fp"`
	ContentHash string             `json:"ch"`
	Nontrivial  bool               `json:"nontrivial"`
	Steps       int                `json:"steps"`
	Deliveries  int                `json:"deliveries"`
	Ticks       int                `json:"ticks"`
	SimMs       int64              `json:"simMs"`
	Faults      map[string]int     `json:"faults,omitempty"`
	Probes      map[string]int     `json:"probes,omitempty"`
	ConfigKey   string             `json:"configKey"`
	Strategy    string             `json:"strategy"`
	Diverged    string             `json:"diverged,omitempty"`
	Sample      string             `json:"sample,omitempty"`
	Skipped     bool               `json:"skipped,omitempty"` // vacuous run (no verdict)
}

type Check struct {
	ID  string
	Run func(t *testing.T, spec RunSpec) *RunResult
	// Shrink proposes smaller configurations for minimisation (optional).
	Shrink func(cfg json.RawMessage) []json.RawMessage
}

var Registry = map[string]*Check{}

func register(c *Check) { Registry[c.ID] = c }

// bubble runs f inside a synctest bubble and absorbs the end-of-bubble
// deadlock panic (goroutines of the code under test that are parked forever).
func bubble(t *testing.T, f func()) (leak string) {
	defer func() {
		if r := recover(); r != nil {
			s := fmt.Sprint(r)
			if strings.Contains(s, "deadlock") {
				leak = s
				return
			}
			panic(r)
		}
	}()
	synctest.Test(t, func(t *testing.T) { f() })
	return ""
}

func mustJSON(v interface{}) json.RawMessage {
	b, err := json.Marshal(v)
	if err != nil {
		panic(err)
	}
	return b
}

func pickStr(r *prng.Rand, xs []string) string { return xs[r.Intn(len(xs))] }

// scheduler builds the scheduler of a run from its spec.
func scheduler(spec RunSpec, strategy string) (netsim.Scheduler, *netsim.ScriptSched) {
	if spec.Scripted || spec.Actions != nil {
		ss := &netsim.ScriptSched{Actions: spec.Actions, Lenient: spec.Lenient, Tail: &netsim.CanonicalSched{}}
		return ss, ss
	}
	return netsim.NewRandomSched(prng.Derive(spec.Seed, "sched"), strategy), nil
}

func sampleTrace(w *netsim.World, max int) string {
	var sb strings.Builder
	for i, a := range w.Actions {
		if i >= max {
			fmt.Fprintf(&sb, "…(+%d)", len(w.Actions)-max)
			break
		}
		if a.K == "t" {
			fmt.Fprintf(&sb, "tick(%v) ", a.D)
		} else if a.C != "" {
			fmt.Fprintf(&sb, "%s[%s] ", a.K, a.C)
		} else {
			fmt.Fprintf(&sb, "%s ", a.K)
		}
	}
	return strings.TrimSpace(sb.String())
}

func fillResult(res *RunResult, w *netsim.World, ss *netsim.ScriptSched) {
	res.Actions = w.Actions
	res.Fingerprint = w.Fingerprint()
	res.ContentHash = w.ContentHash()
	res.Steps = w.Step
	res.Deliveries = w.Deliveries
	res.Ticks = w.Ticks
	res.SimMs = int64(w.Now() / time.Millisecond)
	res.Faults = w.Faults
	res.Probes = w.Probes
	if ss != nil {
		res.Diverged = ss.Diverged
	}
	if res.Sample == "" {
		res.Sample = sampleTrace(w, 60)
	}
}

// panicViolations turns recorded panics into violations; the class is the top
// frame inside the code under test plus the normalised panic text.
func panicViolations(w *netsim.World, invariant string) []netsim.Violation {
	var vs []netsim.Violation
	for _, p := range w.Panics {
		vs = append(vs, netsim.Violation{Invariant: invariant, Class: "panic/" + TopRepoFrame(p.Stack) + "/" + NormalisePanic(p.Value), Detail: fmt.Sprintf("%s: %s; message=%v", p.Where, p.Value, p.Msg)})
	}
	return vs
}

// TopRepoFrame extracts the innermost function of github.com/IBM/TSS on a stack.
func TopRepoFrame(stack string) string {
	for _, line := range strings.Split(stack, "\n") {
		line = strings.TrimSpace(line)
		if strings.HasPrefix(line, "github.com/IBM/TSS/") {
			if i := strings.LastIndex(line, "("); i > 0 {
				line = line[:i]
			}
			return strings.TrimPrefix(line, "github.com/IBM/TSS/")
		}
	}
	return "?"
}

func NormalisePanic(v string) string {
	// drop numbers and hex so that one defect is one class
	var sb strings.Builder
	prevDigit := false
	for _, r := range v {
		if r >= '0' && r <= '9' {
			if !prevDigit {
				sb.WriteByte('N')
			}
			prevDigit = true
			continue
		}
		prevDigit = false
		sb.WriteRune(r)
	}
	s := sb.String()
	if len(s) > 80 {
		s = s[:80]
	}
	return strings.ReplaceAll(s, " ", "_")
}

func sortedU16(m map[uint16]bool) []uint16 {
	var out []uint16
	for k := range m {
		out = append(out, k)
	}
	sort.Slice(out, func(i, j int) bool { return out[i] < out[j] })
	return out
}

func sha(b []byte) []byte { h := sha256.Sum256(b); return h[:] }
