package checks

import (
	tss "github.com/IBM/TSS/types"

	"verif/sim/netsim"
)

// Wire is the harness' own reading of the orchestrator's MPC wire format
// (written from the format's documentation in threshold.go: first byte with the
// top bit clear = acknowledgement {round, sender hi, sender lo, digest...};
// otherwise a payload follows the first byte).
type Wire struct {
	IsAck   bool
	Round   uint8
	About   uint16
	Digest  []byte
	Payload []byte
}

func ParseMPC(data []byte) (Wire, bool) {
	if len(data) == 0 {
		return Wire{}, false
	}
	if data[0]>>7 == 0 {
		if len(data) < 4 {
			return Wire{}, false
		}
		return Wire{IsAck: true, Round: data[0], About: uint16(data[1])<<8 | uint16(data[2]), Digest: data[3:]}, true
	}
	return Wire{Payload: data[1:]}, true
}

func EncodeAck(round uint8, about uint16, digest []byte) []byte {
	b := []byte{round & 0x7f, byte(about >> 8), byte(about)}
	return append(b, digest...)
}

func EncodePayload(p []byte) []byte { return append([]byte{255}, p...) }

func isMPC(m *netsim.Msg) bool { return m.Type == uint8(tss.MsgTypeMPC) }

// acksBeforePayload counts deliveries of an acknowledgement to a node that had
// not yet been delivered the payload the acknowledgement refers to.
func acksBeforePayload(w *netsim.World) int {
	seen := map[string]bool{} // dest/topic/sender/digest
	n := 0
	for _, m := range w.Delivered {
		if !isMPC(m) {
			continue
		}
		wr, ok := ParseMPC(m.Data)
		if !ok {
			continue
		}
		if wr.IsAck {
			k := key(m.To, m.Topic, wr.About, wr.Digest)
			if !seen[k] && wr.About != m.To {
				n++
			}
		} else {
			seen[key(m.To, m.Topic, m.From, sha(wr.Payload))] = true
		}
	}
	return n
}

func key(to uint16, topic []byte, sender uint16, digest []byte) string {
	return string([]byte{byte(to >> 8), byte(to), byte(sender >> 8), byte(sender)}) + string(topic) + "/" + string(digest)
}
