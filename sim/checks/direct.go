package checks

import (
	"context"
	"fmt"
	"time"

	"verif/sim/netsim"
	"verif/sim/scripted"

	"github.com/IBM/TSS/mpc/bls"
	"github.com/IBM/TSS/mpc/ps"
	tss "github.com/IBM/TSS/types"
)

// runDirectDKG wires the key generators of the built-in schemes to one another through the simulator, without the
// orchestrator, as a direct user of the MPC API would: `order` is the party list handed to every Init, in exactly
// that order (the orchestrator always sorts it; the API does not ask for that). It must be called inside a bubble.
// directOpts: a peer that goes silent after a number of messages, and contexts that are cancelled (not expired) at a
// given step.
type directOpts struct {
	Silent       uint16
	SilentAfter  int // messages the silent peer still sends (-1: nobody is silent)
	CancelAtStep int // 0: contexts with a deadline of 10 simulated minutes instead
	// CancelInSend: every context is cancelled from within party CisParty's CisNth call of its send callback - that
	// is, while the caller is RUNNING between two of its waits, not parked in one - and that send then takes a
	// simulated millisecond, so that whoever watches the context acts before the caller goes on (0: off).
	CisParty uint16
	CisNth   int
	// SlowSendMs/DeadlineMs: every send takes about SlowSendMs of simulated time and the contexts carry a deadline
	// of DeadlineMs, which can therefore expire while a caller is inside a send (0: off).
	SlowSendMs int
	DeadlineMs int
}

func runDirectDKG(spec RunSpec, w *netsim.World, backend string, order []uint16, t int, psMsgLen int, strategy string, lg *CountLogger, opts ...directOpts) (shares map[uint16][]byte, calls []*netsim.Call, ss *netsim.ScriptSched) {
	opt := directOpts{SilentAfter: -1}
	if len(opts) > 0 {
		opt = opts[0]
	}
	if opt.SilentAfter >= 0 {
		sent := 0
		w.Filter = func(m *netsim.Msg) []*netsim.Msg {
			if m.From != opt.Silent {
				return []*netsim.Msg{m}
			}
			if sent++; sent > opt.SilentAfter {
				w.Faults["crash-drop-out"]++
				return nil
			}
			return []*netsim.Msg{m}
		}
	}
	topic := sha([]byte("direct-dkg"))
	shares = map[uint16][]byte{}
	st := &starter{}
	var cancels []context.CancelFunc
	cancelled := false
	for _, id := range order {
		id := id
		var kg tss.KeyGenerator
		if backend == "bls" {
			kg = &bls.TBLS{Logger: lg, Party: id}
		} else {
			kg = &ps.TPS{Logger: lg, Party: id, Curve: PSCurve, MessageLength: max(psMsgLen, 1)}
		}
		send := w.SendFunc(id)
		if opt.CisNth > 0 || opt.SlowSendMs > 0 {
			inner, nsent := send, 0
			send = func(msgType uint8, topic []byte, msg []byte, to ...uint16) {
				inner(msgType, topic, msg, to...)
				nsent++
				if opt.CisNth > 0 && id == opt.CisParty && nsent == opt.CisNth && !cancelled {
					cancelled = true
					w.Faults["cancel-in-send"]++
					for _, c := range cancels {
						c()
					}
					time.Sleep(scripted.SimDelay(1, []byte{byte(id), byte(id >> 8), byte(nsent)}))
				} else if opt.SlowSendMs > 0 {
					time.Sleep(scripted.SimDelay(opt.SlowSendMs, []byte{byte(id), byte(id >> 8), byte(nsent)}))
				}
			}
		}
		var others []uint16
		for _, o := range order {
			if o != id {
				others = append(others, o)
			}
		}
		kg.Init(append([]uint16(nil), order...), t, func(msg []byte, isBroadcast bool, to uint16) {
			if isBroadcast {
				send(uint8(tss.MsgTypeMPC), topic, msg, others...)
			} else {
				send(uint8(tss.MsgTypeMPC), topic, msg, to)
			}
		})
		w.AddNode(id, netsim.EndpointFunc(func(inc *tss.IncMessage) {
			_, bcast, err := kg.ClassifyMsg(inc.Data)
			if err != nil {
				return
			}
			kg.OnMsg(inc.Data, inc.Source, bcast)
		}))
		st.add(fmt.Sprintf("start:kg:%d", id), id, 3, func() *netsim.Call {
			var ctx context.Context
			var cancel context.CancelFunc
			if opt.DeadlineMs > 0 {
				w.Faults["deadline"]++
				ctx, cancel = context.WithTimeout(context.Background(), time.Duration(opt.DeadlineMs)*time.Millisecond)
			} else if opt.CancelAtStep > 0 || opt.CisNth > 0 {
				ctx, cancel = context.WithCancel(context.Background())
			} else {
				ctx, cancel = context.WithTimeout(context.Background(), 10*time.Minute)
			}
			cancels = append(cancels, cancel)
			return w.StartCall("KeyGen", id, func() ([]byte, error) { return kg.KeyGen(ctx) })
		})
	}
	sched, ss := scheduler(spec, strategy)
	w.Propose = func() []netsim.Proposal {
		ps := st.proposals()
		if opt.CancelAtStep > 0 && !cancelled && st.allStarted() && w.Step >= opt.CancelAtStep {
			ps = append(ps, netsim.Proposal{Key: "cancel-all", Mandatory: true, Weight: 30, Fire: func() {
				cancelled = true
				w.Faults["cancel"]++
				for _, c := range cancels {
					c()
				}
			}})
		}
		return ps
	}
	lim := netsim.RunLimits{MaxSteps: 100000, Horizon: 20 * time.Minute, FairAfterSteps: 5000, FairAfter: 2 * time.Minute}
	if opt.CisNth > 0 || opt.DeadlineMs > 0 {
		lim = netsim.RunLimits{MaxSteps: 6000, Horizon: 5 * time.Minute, FairAfterSteps: 1500, FairAfter: time.Minute}
	} else if opt.CancelAtStep > 0 {
		// everybody must have returned shortly after the cancellation
		lim = netsim.RunLimits{MaxSteps: opt.CancelAtStep + 4000, Horizon: 5 * time.Minute, FairAfterSteps: opt.CancelAtStep + 500, FairAfter: time.Minute}
	}
	w.Run(sched, lim, func() bool { return st.allDone(w) && quiet(w) })
	for _, c := range st.calls() {
		if w.CallDone(c) && c.Err == nil && c.Panic == "" {
			shares[c.Node] = c.Out
		}
	}
	for _, c := range cancels {
		c()
	}
	time.Sleep(time.Second)
	return shares, st.calls(), ss
}
