package checks

import (
	"context"
	"fmt"
	"time"

	"verif/sim/netsim"

	"github.com/IBM/TSS/mpc/bls"
	"github.com/IBM/TSS/mpc/ps"
	tss "github.com/IBM/TSS/types"
)

// runDirectDKG wires the key generators of the built-in schemes to one another through the simulator, without the
// orchestrator, as a direct user of the MPC API would: `order` is the party list handed to every Init, in exactly
// that order (the orchestrator always sorts it; the API does not ask for that). It must be called inside a bubble.
func runDirectDKG(spec RunSpec, w *netsim.World, backend string, order []uint16, t int, psMsgLen int, strategy string, lg *CountLogger) (shares map[uint16][]byte, calls []*netsim.Call, ss *netsim.ScriptSched) {
	topic := sha([]byte("direct-dkg"))
	shares = map[uint16][]byte{}
	st := &starter{}
	var cancels []context.CancelFunc
	for _, id := range order {
		id := id
		var kg tss.KeyGenerator
		if backend == "bls" {
			kg = &bls.TBLS{Logger: lg, Party: id}
		} else {
			kg = &ps.TPS{Logger: lg, Party: id, Curve: PSCurve, MessageLength: max(psMsgLen, 1)}
		}
		send := w.SendFunc(id)
		var others []uint16
		for _, o := range order {
			if o != id {
				others = append(others, o)
			}
		}
		kg.Init(append([]uint16(nil), order...), t, func(msg []byte, isBroadcast bool, to uint16) {
			if isBroadcast {
				send(uint8(tss.MsgTypeMPC), topic, msg, others...)
			} else {
				send(uint8(tss.MsgTypeMPC), topic, msg, to)
			}
		})
		w.AddNode(id, netsim.EndpointFunc(func(inc *tss.IncMessage) {
			_, bcast, err := kg.ClassifyMsg(inc.Data)
			if err != nil {
				return
			}
			kg.OnMsg(inc.Data, inc.Source, bcast)
		}))
		st.add(fmt.Sprintf("start:kg:%d", id), id, 3, func() *netsim.Call {
			ctx, cancel := context.WithTimeout(context.Background(), 10*time.Minute)
			cancels = append(cancels, cancel)
			return w.StartCall("KeyGen", id, func() ([]byte, error) { return kg.KeyGen(ctx) })
		})
	}
	sched, ss := scheduler(spec, strategy)
	w.Propose = st.proposals
	lim := netsim.RunLimits{MaxSteps: 100000, Horizon: 20 * time.Minute, FairAfterSteps: 5000, FairAfter: 2 * time.Minute}
	w.Run(sched, lim, func() bool { return st.allDone(w) && quiet(w) })
	for _, c := range st.calls() {
		if w.CallDone(c) && c.Err == nil && c.Panic == "" {
			shares[c.Node] = c.Out
		}
	}
	for _, c := range cancels {
		c()
	}
	time.Sleep(time.Second)
	return shares, st.calls(), ss
}
