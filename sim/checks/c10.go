package checks

import (
	"encoding/json"
	"fmt"
	"strings"
	"testing"
	"time"

	"verif/sim/netsim"
	"verif/sim/prng"
	"verif/sim/scripted"

	tss "github.com/IBM/TSS/types"
)

// C10 — nothing received from a peer or client can crash or wedge a node.
//
// Network part: while sessions run (and before / after), structure-aware
// mutations of real in-flight messages and raw random bytes are injected from
// Byzantine participants, outsiders and unknown ids.

type C10Cfg struct {
	Sess     C04Cfg `json:"sess"`
	Mode     string `json:"mode"`     // foreign: garbage never belongs to the session (other topic or non-participant) => the session must complete; participant: anything goes, only "no panic, no wedge"
	Budget   int    `json:"budget"`   // number of garbage messages
	Outsider uint16 `json:"outsider"` // configured member outside the session
	Unknown  uint16 `json:"unknown"`  // id not in the membership
	Entry    bool   `json:"entry"`    // also run the client-facing entry-point mutations
}

func genC10(seed uint64, tier string) C10Cfg {
	r := prng.Derive(seed, "cfg")
	n := r.Range(2, 4)
	var ids []uint16
	for i := 1; i <= n; i++ {
		ids = append(ids, uint16(i))
	}
	out := uint16(n + 1)
	universe := append(append([]uint16(nil), ids...), out)
	s := C04Cfg{N: n, T: r.Range(2, n), Late: -1, Topic: fmt.Sprintf("topic-%d", r.Intn(1000))}
	backend := pickStr(r, []string{"scripted", "scripted", "bls", "ps"})
	if r.Bool(0.04) {
		backend = "eddsa" // the tss-lib adapter's ClassifyMsg / OnMsg under garbage (about a second per run)
		s.T = n - 1
	}
	s.Deploy = DeployCfg{IDs: universe, PIDs: identityPIDs(universe), Silent: r.Bool(0.45), Threshold: n - 1, Backend: backend, PSMsgLen: 2}
	s.Deploy.SP = genScriptedParams(r, 2)
	s.Deploy.SignSP = genScriptedParams(r, 2)
	s.Deploy.PickFixed = append([]uint16(nil), ids...)
	s.Strategy = pickStr(r, netsim.Strategies)
	s.Serial = r.Bool(0.8)
	s.Op = "keygen"
	if backend == "scripted" && r.Bool(0.5) {
		s.Op = "sign"
	}
	s.Signers = ids
	s.CallTimeoutMs = 10000 + r.Intn(3000)
	if rd := prng.Derive(seed, "real-init-delay"); backend != "scripted" && rd.Bool(0.4) {
		s.Deploy.RealInitDelayMs = rd.Range(1, 40)
	}
	c := C10Cfg{Sess: s, Mode: pickStr(r, []string{"foreign", "participant"}), Budget: r.Range(20, 160), Outsider: out, Unknown: uint16(300 + r.Intn(60000)), Entry: r.Bool(0.15)}
	return c
}

// garbage derives the ord-th garbage message of a run from the traffic seen so far.
func garbage(seed uint64, ord int, w *netsim.World, cfg C10Cfg, sessTopic []byte, invokers []uint16) (from, to uint16, typ uint8, topic, data []byte, kind string) {
	r := prng.Derive(seed, fmt.Sprintf("garbage/%d", ord))
	to = invokers[r.Intn(len(invokers))]
	// template: a real message (preferably a recent one) or a synthetic well-formed one
	var tmpl *netsim.Msg
	if n := len(w.WireLog); n > 0 && r.Bool(0.85) {
		lo := 0
		if r.Bool(0.6) && n > 12 {
			lo = n - 12
		}
		tmpl = w.WireLog[lo+r.Intn(n-lo)]
	}
	if tmpl == nil {
		switch r.Intn(3) {
		case 0:
			tmpl = &netsim.Msg{Type: uint8(tss.MsgTypeSync), Topic: sessTopic, Data: c07Encode(byte(1+r.Intn(3)), c07Tag(sessTopic, invokers[0]), invokers)}
		case 1:
			tmpl = &netsim.Msg{Type: uint8(tss.MsgTypeMPC), Topic: sessTopic, Data: EncodeAck(uint8(r.Intn(128)), invokers[0], r.Bytes(32))}
		default:
			tmpl = &netsim.Msg{Type: uint8(tss.MsgTypeMPC), Topic: sessTopic, Data: EncodePayload(append([]byte{byte(1 + r.Intn(3))}, r.Bytes(40)...))}
		}
	}
	typ, topic, data = tmpl.Type, append([]byte(nil), tmpl.Topic...), append([]byte(nil), tmpl.Data...)
	muts := []string{"truncate", "truncate", "truncate", "extend", "empty", "nil", "type", "topic", "ackfield", "firstbyte", "secondbyte", "random", "flip", "synctail", "bigview", "syncvalid", "syncvalid", "protovalid"}
	kind = muts[r.Intn(len(muts))]
	if kind == "protovalid" && cfg.Mode == "foreign" {
		kind = "flip"
	}
	if kind == "protovalid" {
		// a protocol message of a participant that is well-formed as far as the transport and the classifier can
		// tell (a point-to-point message of the first kind, e.g. a key share), sent when nothing of the kind is
		// expected yet - or any more
		from = invokers[r.Intn(len(invokers))]
		for from == to {
			from = invokers[r.Intn(len(invokers))]
		}
		body := append([]byte{1}, r.Bytes(32)...)
		if cfg.Sess.Deploy.Backend == "scripted" {
			body = scripted.Encode(cfg.Sess.Deploy.SP.RoundBase, false, from, uint16(9000+ord), r.Bytes(8))
		}
		return from, to, uint8(tss.MsgTypeMPC), sessTopic, EncodePayload(body), kind
	}
	if kind == "syncvalid" && cfg.Mode == "foreign" {
		// a configured member can always keep the membership synchronisation from completing (it may simply announce
		// itself), so well-formed synchroniser traffic is session traffic even when it comes from a non-participant
		kind = "synctail"
	}
	if kind == "syncvalid" {
		// a well-formed but unsolicited synchroniser message under the sender's own, correct tag, on one of the
		// topics the session synchronises on: nothing is malformed, it is only not expected at this point
		from = []uint16{cfg.Outsider, cfg.Outsider, invokers[r.Intn(len(invokers))]}[r.Intn(3)]
		for from == to {
			from = cfg.Outsider
		}
		tp := [][]byte{sessTopic, sessTopic, sha(sessTopic)}[r.Intn(3)]
		mt := byte(1 + r.Intn(3))
		if r.Bool(0.5) {
			mt = 3 // a response nobody asked for
		}
		view := append([]uint16(nil), invokers...)
		if r.Bool(0.5) {
			view = append(view, cfg.Outsider)
		}
		return from, to, uint8(tss.MsgTypeSync), tp, c07Encode(mt, c07Tag(tp, from), view), kind
	}
	switch kind {
	case "truncate":
		if len(data) > 0 {
			data = data[:r.Intn(len(data))]
		}
	case "extend":
		data = append(data, r.Bytes(r.Range(1, 9))...)
	case "empty":
		data = []byte{}
	case "nil":
		data = nil
	case "type":
		typ = []uint8{0, 1, 2, 3, 255}[r.Intn(5)]
	case "topic":
		switch r.Intn(7) {
		case 0:
			topic = nil
		case 1:
			topic = []byte{}
		case 2:
			topic = topic[:min(1, len(topic))]
		case 3:
			topic = topic[:min(7, len(topic))]
		case 4:
			topic = topic[:min(8, len(topic))]
		case 5:
			topic = append(topic, 0)
		default:
			topic = r.Bytes(32)
		}
	case "ackfield":
		// round, sender bytes, digest length
		round := uint8(r.Intn(128))
		about := []uint16{to, cfg.Unknown, invokers[r.Intn(len(invokers))], 0, 0xffff}[r.Intn(5)]
		dl := []int{0, 1, 7, 8, 31, 32, 33, 64}[r.Intn(8)]
		data = EncodeAck(round, about, r.Bytes(dl))
		typ = uint8(tss.MsgTypeMPC)
	case "firstbyte":
		if len(data) > 0 {
			data[0] = []byte{0, 1, 2, 3, 4, 127, 128, 129, 254, 255}[r.Intn(10)]
		}
	case "secondbyte":
		if len(data) > 1 {
			data[1] = []byte{0, 1, 2, 3, 4, 127, 128, 255}[r.Intn(8)]
		}
	case "random":
		data = r.Bytes(r.Intn(80))
		typ = uint8(1 + r.Intn(2))
	case "flip":
		if len(data) > 0 {
			data[r.Intn(len(data))] ^= byte(1 << r.Intn(8))
		}
	case "synctail":
		// synchroniser messages of every length around the tag, odd tails
		typ = uint8(tss.MsgTypeSync)
		l := []int{0, 1, 2, 31, 32, 33, 34, 35, 36}[r.Intn(9)]
		data = append([]byte{byte(1 + r.Intn(3))}, c07Tag(topic, invokers[r.Intn(len(invokers))])...)
		data = append(data, r.Bytes(8)...)
		data = data[:l]
	case "bigview":
		typ = uint8(tss.MsgTypeSync)
		var view []uint16
		for i := 0; i < 300; i++ {
			view = append(view, uint16(r.Intn(65536)))
		}
		data = c07Encode(byte(1+r.Intn(3)), c07Tag(topic, invokers[r.Intn(len(invokers))]), view)
	}
	// source and topic according to the mode
	foreignTopic := func() []byte { return sha(append([]byte("foreign"), byte(r.Intn(3)))) }
	if cfg.Mode == "foreign" {
		if r.Bool(0.5) {
			// from a participant, but on a topic that belongs to no session of the victim
			from = invokers[r.Intn(len(invokers))]
			for from == to && len(invokers) > 1 {
				from = invokers[r.Intn(len(invokers))]
			}
			if from == to {
				from = cfg.Outsider
			}
			if kind != "topic" || string(topic) == string(sessTopic) || isSessionRelated(topic, sessTopic, invokers) {
				topic = foreignTopic()
			}
		} else {
			from = []uint16{cfg.Outsider, cfg.Unknown}[r.Intn(2)]
		}
	} else {
		from = []uint16{invokers[r.Intn(len(invokers))], cfg.Outsider, cfg.Unknown}[r.Intn(3)]
		for from == to {
			from = []uint16{invokers[r.Intn(len(invokers))], cfg.Outsider, cfg.Unknown}[r.Intn(3)]
		}
	}
	return
}

// isSessionRelated: the topics a session of these invokers listens on besides the session topic
// (second synchronisation, membership agreement) are derived from it; a "foreign" topic must avoid them.
func isSessionRelated(topic, sessTopic []byte, invokers []uint16) bool {
	if string(topic) == string(sha(sessTopic)) {
		return true
	}
	return len(topic) == 32 // conservatively: any well-formed topic taken from real traffic
}

func runC10(t *testing.T, spec RunSpec) *RunResult {
	var cfg C10Cfg
	if spec.Cfg != nil {
		if err := json.Unmarshal(spec.Cfg, &cfg); err != nil {
			panic(err)
		}
	} else {
		cfg = genC10(spec.Seed, spec.Tier)
	}
	res := &RunResult{Property: "C10", Seed: spec.Seed, Cfg: mustJSON(cfg), Strategy: cfg.Sess.Strategy}
	mode := "loud"
	if cfg.Sess.Deploy.Silent {
		mode = "silent"
	}
	res.ConfigKey = fmt.Sprintf("%s %s %s n=%d garbage=%s entry=%v", cfg.Sess.Deploy.Backend, mode, cfg.Sess.Op, cfg.Sess.N, cfg.Mode, cfg.Entry)
	restore := seedCryptoRand(spec.Seed)
	defer restore()
	states := map[string]int{}
	bubble(t, func() {
		sc := cfg.Sess
		w := netsim.NewWorld(spec.Seed)
		w.Serial = sc.Serial
		trace(spec, res.Cfg, w)
		d := NewDeployment(w, sc.Deploy)
		d.Build()
		invokers := sc.Signers
		sessTopic := sha([]byte("DKG"))
		if sc.Op == "sign" {
			sessTopic = sha([]byte(sc.Topic))
		}
		sched, ss := scheduler(spec, sc.Strategy)
		st := &starter{}
		timeout := time.Duration(sc.CallTimeoutMs)*time.Millisecond + 23*time.Microsecond
		for _, id := range invokers {
			if sc.Op == "sign" {
				d.Parties[id].SetStoredData(fabricatedStored(invokers, sc.T, id))
				st.add(fmt.Sprintf("start:sg:%d", id), id, 0.15, startSign(d, id, sha([]byte("digest")), sc.Topic, timeout))
			} else {
				st.add(fmt.Sprintf("start:kg:%d", id), id, 0.15, startKeyGen(d, id, sc.N, sc.T, timeout))
			}
		}
		fired := map[int]bool{}
		nFired := 0
		state := func() string {
			started := 0
			done := 0
			for _, p := range st.pend {
				if p.Call != nil {
					started++
					if w.CallDone(p.Call) {
						done++
					}
				}
			}
			switch {
			case started == 0:
				return "idle"
			case done == len(st.pend):
				return "finished"
			}
			// protocol running once MPC payloads are on the wire
			for i := len(w.WireLog) - 1; i >= 0; i-- {
				if isMPC(w.WireLog[i]) && w.WireLog[i].Tag == "" {
					return "protocol"
				}
			}
			return "synchronising"
		}
		mkProposal := func(ord int) *netsim.Proposal {
			return &netsim.Proposal{Key: fmt.Sprintf("g:%d", ord), Weight: 0.6, Fire: func() {
				if fired[ord] {
					return
				}
				fired[ord] = true
				nFired++
				from, to, typ, topic, data, kind := garbage(spec.Seed, ord, w, cfg, sessTopic, invokers)
				copies := 1
				if ord%23 == 7 {
					// flood: one sender, one topic, more messages than the silent-mode buffer keeps per sender
					kind = "flood"
					copies = 104
					typ = uint8(tss.MsgTypeMPC)
					if ord%2 == 1 {
						topic = sha([]byte(fmt.Sprintf("never-started-%d", ord)))
					}
				}
				for c := 0; c < copies; c++ {
					m := w.Inject(from, to, typ, topic, data, "garbage-"+kind)
					if topic == nil {
						m.Topic = nil
					}
					if data == nil {
						m.Data = nil
					}
				}
				w.Faults["garbage-"+kind]++
				states[state()]++
			}}
		}
		w.Force = func(key string) *netsim.Proposal {
			var ord int
			if _, err := fmt.Sscanf(key, "g:%d", &ord); err == nil && strings.HasPrefix(key, "g:") && !fired[ord] {
				return mkProposal(ord)
			}
			return nil
		}
		finishedBudget := 12 // garbage injected after the session has ended
		w.Propose = func() []netsim.Proposal {
			ps := st.proposals()
			if nFired < cfg.Budget {
				k := 0
				for ord := 0; ord < cfg.Budget && k < 3; ord++ {
					if !fired[ord] {
						ps = append(ps, *mkProposal(ord))
						k++
					}
				}
			}
			return ps
		}
		lim := netsim.RunLimits{MaxSteps: 100000, Horizon: timeout + 30*time.Second, FairAfterSteps: 6000, FairAfter: timeout / 2}
		v := w.Run(sched, lim, func() bool { return st.allDone(w) && quiet(w) && nFired >= cfg.Budget-finishedBudget })
		if v != nil {
			res.Violations = append(res.Violations, *v)
		}
		// state "finished": the rest of the budget arrives after the calls returned
		if w.PanicCount() == 0 && len(res.Violations) == 0 {
			for ord := 0; ord < cfg.Budget; ord++ {
				if !fired[ord] {
					mkProposal(ord).Fire()
				}
			}
			w.Propose = nil
			w.Run(&netsim.CanonicalSched{}, netsim.RunLimits{MaxSteps: 5000, Horizon: 20 * time.Second}, func() bool { return quiet(w) })
		}
		res.Violations = append(res.Violations, panicViolations(w, "C10/panic")...)
		if stuck := w.Stuck(); len(stuck) > 0 && len(res.Violations) == 0 {
			res.Violations = append(res.Violations, netsim.Violation{Invariant: "C10/wedged", Class: "C10/wedged/" + stuck[0].Class(), Detail: fmt.Sprintf("HandleMessage did not return for %v although the system is quiescent", stuck[0])})
		}
		if len(res.Violations) == 0 {
			for _, c := range st.calls() {
				if !w.CallDone(c) {
					res.Violations = append(res.Violations, netsim.Violation{Invariant: "C10/hang", Class: "C10/hang/" + sc.Op, Detail: fmt.Sprintf("%s on node %d did not return by its deadline: %s", c.Name, c.Node, callSummary(st.calls()))})
					break
				}
				if cfg.Mode == "foreign" && c.Err != nil {
					res.Violations = append(res.Violations, netsim.Violation{Invariant: "C10/service-disrupted", Class: "C10/service-disrupted/" + sc.Deploy.Backend + "/" + mode, Detail: fmt.Sprintf("garbage that does not belong to the session (other topics, non-participants) made it fail: %s log=%s", callSummary(st.calls()), d.Log.Summary("E"))})
					break
				}
			}
		}
		for k, n := range states {
			w.Probes["garbage-in-state-"+k] += n
		}
		res.Nontrivial = nFired > 0 && states["protocol"]+states["synchronising"] > 0
		d.Teardown()
		fillResult(res, w, ss)
	})
	if cfg.Entry && len(res.Violations) == 0 {
		if prob := entryPointMutations(spec.Seed, res); prob != "" {
			res.Violations = append(res.Violations, netsim.Violation{Invariant: "C10/entry-point", Class: "C10/entry-point/" + strings.SplitN(prob, ":", 2)[0], Detail: prob})
		}
	}
	return res
}

func init() {
	register(&Check{ID: "C10", Run: runC10})
}
