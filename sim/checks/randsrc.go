package checks

import (
	crand "crypto/rand"
	"io"
	"sync"

	"verif/sim/prng"
)

// seedCryptoRand replaces crypto/rand.Reader (a package variable that bls, ps
// and mathlib read at call time) by a stream derived from the run's seed and
// returns a function that restores it.
func seedCryptoRand(seed uint64) func() {
	old := crand.Reader
	crand.Reader = &lockedReader{r: prng.Derive(seed, "crypto/rand")}
	return func() { crand.Reader = old }
}

type lockedReader struct {
	mu sync.Mutex
	r  io.Reader
}

func (l *lockedReader) Read(p []byte) (int, error) {
	l.mu.Lock()
	defer l.mu.Unlock()
	return l.r.Read(p)
}
