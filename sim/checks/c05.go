package checks

import (
	"bytes"
	"context"
	"crypto/sha256"
	"encoding/asn1"
	"encoding/json"
	"fmt"
	"sort"
	"sync"
	"testing"
	"time"

	"verif/sim/netsim"
	"verif/sim/prng"

	math "github.com/IBM/mathlib"

	"github.com/IBM/TSS/mpc/bls"
	"github.com/IBM/TSS/mpc/ps"
	tss "github.com/IBM/TSS/types"
)

// C05 — a misbehaving DKG participant cannot split or poison the generated key.

type C05Cfg struct {
	Deploy     DeployCfg `json:"deploy"`
	Strategy   string    `json:"strategy"`
	N          int       `json:"n"`
	T          int       `json:"t"`
	Culprit    uint16    `json:"culprit"`
	Victims    []uint16  `json:"victims"`
	Deviation  string    `json:"deviation"`
	MsgType    int       `json:"msgType"`  // 1 share, 2 commit, 3 reveal (for malformed / duplicate / withhold)
	Mutation   string    `json:"mutation"` // for malformed
	DeadlineMs int       `json:"deadlineMs"`
	Enum       bool      `json:"enum"`
	Concurrent bool      `json:"concurrent,omitempty"` // concurrent dispatch (used by C20)
	// Direct wires the n backends to one another through the simulator without the orchestrator and the
	// reliable-broadcast layer: the key generation protocol must also withstand the deviations that the
	// layers above it would mask (duplicates, several messages of one kind, arbitrary order).
	Direct bool `json:"direct,omitempty"`
	// Component: which component of a Pointcheval-Sanders share / public key (x, y_1 .. y_k) a deviation alters:
	// 0 = x, -1 = the last y, k > 0 = y_((k-1) mod number of ys) + 1. (BLS has one component.)
	Component int `json:"component,omitempty"`
	// CancelNode/CancelAfter (concurrent dispatch, set by C20): CancelAfter steps after every call has started, the
	// context of CancelNode's KeyGen is cancelled in the very step in which a protocol message is dispatched into
	// that node: a call that gives up while a message for its session is being handled (0: never).
	CancelNode  uint16 `json:"cancelNode,omitempty"`
	CancelAfter int    `json:"cancelAfter,omitempty"`
}

// component returns a pointer to the chosen component of k.
func (cfg *C05Cfg) component(k *xys) *[]byte {
	switch {
	case cfg.Component == 0 || len(k.Ys) == 0:
		return &k.X
	case cfg.Component < 0:
		return &k.Ys[len(k.Ys)-1]
	}
	return &k.Ys[(cfg.Component-1)%len(k.Ys)]
}

var c05Deviations = []string{"none", "share-off", "reveal-mismatch", "consistent-off-poly", "equivocate-commit", "equivocate-reveal", "malformed", "duplicate", "early-reveal", "second-commit", "late-share", "withhold"}
var c05Mutations = []string{"empty", "truncate-1", "truncate-half", "extend", "arity-less", "arity-more", "arity-none", "garbage"}

func genC05(seed uint64, index int, tier string) C05Cfg {
	r := prng.Derive(seed, "cfg")
	maxN := 4
	if tier == "thorough" {
		maxN = 5
	}
	n := r.Range(3, maxN)
	var ids []uint16
	for i := 1; i <= n; i++ {
		ids = append(ids, uint16(i))
	}
	c := C05Cfg{N: n, T: r.Range(2, n), DeadlineMs: 6000 + r.Intn(3000)}
	if r.Bool(0.25) {
		c.T = n
	}
	backend := pickStr(r, []string{"bls", "bls", "ps"})
	c.Deploy = DeployCfg{IDs: ids, Silent: r.Bool(0.3), Threshold: c.T - 1, Backend: backend, PSMsgLen: r.Range(1, 3)}
	c.Strategy = pickStr(r, netsim.Strategies)
	c.Culprit = ids[r.Intn(n)]
	var honest []uint16
	for _, id := range ids {
		if id != c.Culprit {
			honest = append(honest, id)
		}
	}
	// the catalogue is walked systematically by the run index, the rest is drawn
	c.Deviation = c05Deviations[index%len(c05Deviations)]
	c.Enum = true
	// victim set: every non-empty subset of the honest nodes, indexed
	mask := 1 + (index/len(c05Deviations))%((1<<len(honest))-1)
	for i, h := range honest {
		if mask&(1<<i) != 0 {
			c.Victims = append(c.Victims, h)
		}
	}
	c.MsgType = 1 + r.Intn(3)
	c.Mutation = c05Mutations[r.Intn(len(c05Mutations))]
	c.Direct = prng.Derive(seed, "direct").Bool(0.3)
	if rc := prng.Derive(seed, "component"); backend == "ps" {
		c.Component = []int{0, 0, -1, -1, -1, 1, 2, 3}[rc.Intn(8)]
	}
	// 40% of the runs: the same scenario over small non-contiguous identifiers (order-preserving renaming)
	if rs := prng.Derive(seed, "sparse-ids"); rs.Bool(0.4) {
		m := map[uint16]uint16{}
		next := uint16(0)
		for _, id := range ids {
			next += uint16(rs.Range(1, 9))
			m[id] = next - 1
		}
		for i := range c.Deploy.IDs {
			c.Deploy.IDs[i] = m[c.Deploy.IDs[i]]
		}
		c.Culprit = m[c.Culprit]
		for i := range c.Victims {
			c.Victims[i] = m[c.Victims[i]]
		}
	}
	return c
}

type xys struct {
	X  []byte
	Ys [][]byte
}

// c05Adversary rewrites the DKG traffic of the culprit.
type c05Adversary struct {
	w          *netsim.World
	cfg        C05Cfg
	seed       uint64
	curve      *math.Curve
	topic      []byte
	offKey     []byte // a valid public-key body that differs from the culprit's
	sentEarly  bool
	origReveal []byte
}

func (a *c05Adversary) isVictim(id uint16) bool {
	for _, v := range a.cfg.Victims {
		if v == id {
			return true
		}
	}
	return false
}

func (a *c05Adversary) randomG2(label string) []byte {
	r := prng.Derive(a.seed, "c05/"+label)
	return a.curve.GenG2.Mul(a.curve.NewRandomZr(r)).Bytes()
}

// otherKey builds a well-formed key body for the backend that differs from body.
func (a *c05Adversary) otherKey(body []byte, label string) []byte {
	if a.cfg.Deploy.Backend == "bls" {
		return a.randomG2(label)
	}
	var k xys
	if _, err := asn1.Unmarshal(body, &k); err != nil {
		return a.randomG2(label)
	}
	*a.cfg.component(&k) = a.randomG2(label)
	out, _ := asn1.Marshal(k)
	return out
}

func (a *c05Adversary) alterShare(body []byte) []byte {
	if a.cfg.Deploy.Backend == "bls" {
		b := append([]byte(nil), body...)
		if len(b) > 0 {
			b[len(b)-1] ^= 1
		}
		return b
	}
	var k xys
	if _, err := asn1.Unmarshal(body, &k); err != nil {
		return body
	}
	if c := a.cfg.component(&k); len(*c) > 0 {
		*c = append([]byte(nil), (*c)...)
		(*c)[len(*c)-1] ^= 1
	}
	out, _ := asn1.Marshal(k)
	return out
}

func (a *c05Adversary) mutate(body []byte) []byte {
	switch a.cfg.Mutation {
	case "empty":
		return nil
	case "truncate-1":
		if len(body) > 0 {
			return body[:len(body)-1]
		}
	case "truncate-half":
		return body[:len(body)/2]
	case "extend":
		return append(append([]byte(nil), body...), 1, 2, 3)
	case "garbage":
		return prng.Derive(a.seed, "garbage").Bytes(len(body))
	case "arity-less", "arity-more", "arity-none":
		var k xys
		if _, err := asn1.Unmarshal(body, &k); err != nil {
			// BLS bodies have no arity: shorten / lengthen instead
			if a.cfg.Mutation == "arity-more" {
				return append(append([]byte(nil), body...), body...)
			}
			return body[:len(body)/3]
		}
		switch a.cfg.Mutation {
		case "arity-less":
			if len(k.Ys) > 0 {
				k.Ys = k.Ys[:len(k.Ys)-1]
			}
		case "arity-more":
			if len(k.Ys) > 0 {
				k.Ys = append(k.Ys, k.Ys[0])
			}
		case "arity-none":
			k.Ys = nil
		}
		out, _ := asn1.Marshal(k)
		return out
	}
	return body
}

func (a *c05Adversary) mk(m *netsim.Msg, typ byte, body []byte, tag string) *netsim.Msg {
	c := *m
	c.Data = append([]byte{255, typ}, body...)
	c.Tag = tag
	return &c
}

func (a *c05Adversary) Filter(m *netsim.Msg) []*netsim.Msg {
	if m.From != a.cfg.Culprit || m.Type != uint8(tss.MsgTypeMPC) || !bytes.Equal(m.Topic, a.topic) || len(m.Data) < 2 || m.Data[0] != 255 {
		return []*netsim.Msg{m}
	}
	typ := m.Data[1]
	body := m.Data[2:]
	fire := func(k string) { a.w.Faults["dkg-"+k]++ }
	out := []*netsim.Msg{m}
	switch a.cfg.Deviation {
	case "share-off":
		if typ == 1 && a.isVictim(m.To) {
			fire("share-off")
			out = []*netsim.Msg{a.mk(m, 1, a.alterShare(body), "dkg-share-off")}
		}
	case "reveal-mismatch":
		if typ == 3 {
			fire("reveal-mismatch")
			out = []*netsim.Msg{a.mk(m, 3, a.otherKey(body, "mismatch"), "dkg-reveal-mismatch")}
		}
	case "consistent-off-poly":
		// commit to and reveal a key that is not g2^sk; identical for everybody
		if typ == 2 || typ == 3 {
			if a.offKey == nil {
				a.offKey = a.randomG2("off") // replaced below for PS once the real reveal is known
			}
		}
		if typ == 2 {
			// the commitment is sent before the real key is on the wire; PS needs the arity of the real
			// key, which the adversary (running the real backend) knows: derive it from the message length
			key := a.offKeyFor()
			d := sha256.Sum256(key)
			fire("commit-to-other-key")
			out = []*netsim.Msg{a.mk(m, 2, d[:], "dkg-off-poly")}
		}
		if typ == 3 {
			fire("reveal-other-key")
			out = []*netsim.Msg{a.mk(m, 3, a.offKeyFor(), "dkg-off-poly")}
		}
	case "equivocate-commit":
		if typ == 2 && a.isVictim(m.To) {
			fire("equivocate-commit")
			d := sha256.Sum256(append([]byte("other"), body...))
			out = []*netsim.Msg{a.mk(m, 2, d[:], "dkg-equivocate")}
		}
	case "equivocate-reveal":
		if typ == 3 && a.isVictim(m.To) {
			fire("equivocate-reveal")
			out = []*netsim.Msg{a.mk(m, 3, a.otherKey(body, "equiv"), "dkg-equivocate")}
		}
	case "malformed":
		if int(typ) == a.cfg.MsgType && (typ != 1 || a.isVictim(m.To)) {
			fire("malformed-" + a.cfg.Mutation)
			out = []*netsim.Msg{a.mk(m, typ, a.mutate(body), "dkg-malformed")}
		}
	case "duplicate":
		if int(typ) == a.cfg.MsgType {
			fire("duplicate")
			c := *m
			c.Tag = "dkg-duplicate"
			out = []*netsim.Msg{m, &c}
		}
	case "early-reveal":
		// a reveal (valid key) to the victims before anything else
		if typ == 1 && a.isVictim(m.To) {
			fire("early-reveal")
			out = []*netsim.Msg{a.mk(m, 3, a.offKeyFor(), "dkg-early-reveal"), m}
		}
	case "second-commit":
		if typ == 2 {
			fire("second-commit")
			d := sha256.Sum256(append([]byte("second"), body...))
			out = []*netsim.Msg{m, a.mk(m, 2, d[:], "dkg-second-commit")}
		}
	case "late-share":
		if typ == 3 && a.isVictim(m.To) {
			fire("late-share")
			out = []*netsim.Msg{m, a.mk(m, 1, prng.Derive(a.seed, "lateshare").Bytes(32), "dkg-late-share")}
		}
	case "withhold":
		if int(typ) == a.cfg.MsgType && a.isVictim(m.To) {
			fire("withhold")
			out = nil
		}
	}
	return out
}

func (a *c05Adversary) offKeyFor() []byte {
	if a.cfg.Deploy.Backend == "bls" {
		return a.randomG2("off")
	}
	k := xys{X: a.randomG2("off")}
	for i := 0; i < a.cfg.Deploy.PSMsgLen; i++ {
		k.Ys = append(k.Ys, a.randomG2(fmt.Sprintf("offy%d", i)))
	}
	out, _ := asn1.Marshal(k)
	return out
}

// kgProxy records what an honest backend receives and emits (transparent).
type kgProxy struct {
	tss.KeyGenerator
	node        uint16
	mu          sync.Mutex
	commitsFrom map[uint16]bool
	parties     []uint16
	violation   string
	w           *netsim.World
	revealed    bool
}

func (p *kgProxy) Init(parties []uint16, threshold int, sendMsg func(msg []byte, isBroadcast bool, to uint16)) {
	p.mu.Lock()
	p.parties = append([]uint16(nil), parties...)
	p.commitsFrom = map[uint16]bool{}
	p.mu.Unlock()
	p.KeyGenerator.Init(parties, threshold, func(msg []byte, isBroadcast bool, to uint16) {
		if len(msg) > 0 && msg[0] == 3 && isBroadcast {
			p.mu.Lock()
			p.revealed = true
			var missing []uint16
			for _, q := range p.parties {
				if q != p.node && !p.commitsFrom[q] {
					missing = append(missing, q)
				}
			}
			if len(missing) > 0 && p.violation == "" {
				p.violation = fmt.Sprintf("party %d disclosed its public-key contribution at step %d without holding the commitments of %v", p.node, p.w.StepA(), missing)
			}
			p.mu.Unlock()
		}
		sendMsg(msg, isBroadcast, to)
	})
}

func (p *kgProxy) OnMsg(msgBytes []byte, from uint16, broadcast bool) {
	if len(msgBytes) > 0 && msgBytes[0] == 2 {
		p.mu.Lock()
		if p.commitsFrom != nil {
			p.commitsFrom[from] = true
		}
		p.mu.Unlock()
	}
	p.KeyGenerator.OnMsg(msgBytes, from, broadcast)
}

func (p *kgProxy) KeyGen(ctx context.Context) ([]byte, error) { return p.KeyGenerator.KeyGen(ctx) }

// blsOracleSubset is blsOracle for the case that only some parties completed.
func blsOracleSubset(all []uint16, completers []uint16, t int, shares map[uint16][]byte, r *prng.Rand, lg bls.Logger) (problem string, n int) {
	defer func() {
		if rec := recover(); rec != nil {
			problem = fmt.Sprintf("panic in the documented post-DKG flow: %v", rec)
		}
	}()
	signers := map[uint16]*bls.TBLS{}
	var pk0 []byte
	for _, id := range completers {
		s := &bls.TBLS{Logger: lg, Party: id}
		s.Init(all, t, nil)
		if err := s.SetShareData(shares[id]); err != nil {
			return fmt.Sprintf("party %d: stored data does not load: %v", id, err), 0
		}
		pk, err := s.ThresholdPK()
		if err != nil {
			return fmt.Sprintf("party %d: ThresholdPK: %v", id, err), 0
		}
		if pk0 == nil {
			pk0 = pk
		} else if !bytes.Equal(pk0, pk) {
			return fmt.Sprintf("honest parties %d and %d completed with differing public material", completers[0], id), 0
		}
		signers[id] = s
	}
	if len(completers) < t {
		return "", 0
	}
	var v bls.Verifier
	if err := v.Init(pk0); err != nil {
		return fmt.Sprintf("Verifier.Init: %v", err), 0
	}
	buf := make([]byte, 0, 64)
	for di, dg := range [][]byte{sha([]byte("m")), r.Bytes(32)} {
		sigs := map[uint16][]byte{}
		buf = append(buf[:0], dg...) // one buffer, overwritten for every message (see blsOracle)
		for _, id := range completers {
			sig, err := signers[id].Sign(nil, buf)
			if err != nil {
				return fmt.Sprintf("party %d: Sign: %v", id, err), n
			}
			sigs[id] = sig
		}
		subsets(completers, t, func(sub []uint16) {
			if problem != "" {
				return
			}
			var ss [][]byte
			for _, id := range sub {
				ss = append(ss, sigs[id])
			}
			agg, err := v.AggregateSignatures(ss, sub)
			if err != nil {
				problem = fmt.Sprintf("aggregate %v: %v", sub, err)
				return
			}
			if err := v.Verify(dg, agg); err != nil {
				problem = fmt.Sprintf("honest parties %v completed, but their shares do not sign digest #%d under the reported threshold key: %v", sub, di, err)
				return
			}
			n++
		})
		if problem != "" {
			return
		}
	}
	return "", n
}

func runC05(t *testing.T, spec RunSpec) *RunResult {
	var cfg C05Cfg
	if spec.Cfg != nil {
		if err := json.Unmarshal(spec.Cfg, &cfg); err != nil {
			panic(err)
		}
	} else {
		cfg = genC05(spec.Seed, spec.Index, spec.Tier)
	}
	res := &RunResult{Property: "C05", Seed: spec.Seed, Cfg: mustJSON(cfg), Strategy: cfg.Strategy}
	mode := "loud"
	if cfg.Deploy.Silent {
		mode = "silent"
	}
	dev := cfg.Deviation
	if dev == "malformed" {
		dev += ":" + cfg.Mutation
	}
	if dev == "malformed" || cfg.Deviation == "duplicate" || cfg.Deviation == "withhold" || cfg.Deviation == "malformed" {
		dev += fmt.Sprintf(":type%d", cfg.MsgType)
	}
	if cfg.Direct {
		mode = "backend-to-backend"
	}
	res.ConfigKey = fmt.Sprintf("%s n=%d t=%d %s %s", cfg.Deploy.Backend, cfg.N, cfg.T, mode, dev)
	restore := seedCryptoRand(spec.Seed)
	defer restore()
	shares := map[uint16][]byte{}
	var completers []uint16
	var lg *CountLogger
	fired := 0
	bubble(t, func() {
		w := netsim.NewWorld(spec.Seed)
		if cfg.Concurrent {
			w.Serial = false
			w.MaxConc = 4
			w.JoinProposals = true
		}
		trace(spec, res.Cfg, w)
		d := NewDeployment(w, cfg.Deploy)
		proxies := map[uint16]*kgProxy{}
		d.WrapKG = func(node uint16, kg tss.KeyGenerator) tss.KeyGenerator {
			if node == cfg.Culprit || cfg.Deploy.QuietRec {
				return kg // (race-detector runs: no recording proxy, its lock would order the dispatcher goroutines)
			}
			p := &kgProxy{KeyGenerator: kg, node: node, w: w}
			d.mu.Lock()
			proxies[node] = p
			d.mu.Unlock()
			return p
		}
		lg = d.Log
		dkgTopic := sha([]byte("DKG"))
		deadline := time.Duration(cfg.DeadlineMs)*time.Millisecond + 19*time.Microsecond
		st := &starter{}
		cancelOf := map[uint16]context.CancelFunc{} // root goroutine only
		if cfg.Direct {
			// backend-to-backend: the wire format of the orchestrator ([255] + protocol message) is kept so that the
			// same adversary applies; the receiver classifies the message itself, as the orchestrator would
			backends := map[uint16]tss.KeyGenerator{}
			for _, id := range cfg.Deploy.IDs {
				var kg tss.KeyGenerator
				if cfg.Deploy.Backend == "bls" {
					kg = &bls.TBLS{Logger: lg, Party: id}
				} else {
					kg = &ps.TPS{Logger: lg, Party: id, Curve: PSCurve, MessageLength: max(cfg.Deploy.PSMsgLen, 1)}
				}
				backends[id] = d.WrapKG(id, kg)
			}
			for _, id := range cfg.Deploy.IDs {
				id := id
				kg := backends[id]
				send := w.SendFunc(id)
				var others []uint16
				for _, o := range cfg.Deploy.IDs {
					if o != id {
						others = append(others, o)
					}
				}
				kg.Init(cfg.Deploy.IDs, cfg.T, func(msg []byte, isBroadcast bool, to uint16) {
					data := append([]byte{255}, msg...)
					if isBroadcast {
						send(uint8(tss.MsgTypeMPC), dkgTopic, data, others...)
					} else {
						send(uint8(tss.MsgTypeMPC), dkgTopic, data, to)
					}
				})
				w.AddNode(id, netsim.EndpointFunc(func(inc *tss.IncMessage) {
					if len(inc.Data) < 1 {
						return
					}
					payload := inc.Data[1:]
					_, bcast, err := kg.ClassifyMsg(payload)
					if err != nil {
						return
					}
					kg.OnMsg(payload, inc.Source, bcast)
				}))
				st.add(fmt.Sprintf("start:kg:%d", id), id, 3, func() *netsim.Call {
					ctx, c := d.Ctx(deadline)
					cancelOf[id] = c
					return w.StartCall("KeyGen", id, func() ([]byte, error) { return kg.KeyGen(ctx) })
				})
			}
		} else {
			d.Build()
			for _, id := range cfg.Deploy.IDs {
				id := id
				st.add(fmt.Sprintf("start:kg:%d", id), id, 3, func() *netsim.Call {
					ctx, c := d.Ctx(deadline)
					cancelOf[id] = c
					p := d.Parties[id]
					return w.StartCall("KeyGen", id, func() ([]byte, error) { return p.KeyGen(ctx, cfg.N, cfg.T) })
				})
			}
		}
		adv := &c05Adversary{w: w, cfg: cfg, seed: spec.Seed, curve: PSCurve, topic: dkgTopic}
		w.Filter = adv.Filter
		sched, ss := scheduler(spec, cfg.Strategy)
		w.Propose = st.proposals
		if cfg.CancelAfter > 0 {
			startedAt, cancelled := -1, false
			w.Propose = func() []netsim.Proposal {
				out := st.proposals()
				if st.allStarted() && startedAt < 0 {
					startedAt = w.Step
				}
				if c := cancelOf[cfg.CancelNode]; c != nil && !cancelled && startedAt >= 0 && w.Step >= startedAt+cfg.CancelAfter {
					out = append(out, netsim.Proposal{Key: fmt.Sprintf("cancel:%d", cfg.CancelNode), Mandatory: true, Weight: 20, JoinWith: true, JoinNode: cfg.CancelNode, JoinClass: "mpc", Fire: func() {
						cancelled = true
						w.Faults["cancel-joined"]++
						c()
					}})
				}
				return out
			}
		}
		lim := netsim.RunLimits{MaxSteps: 80000, Horizon: deadline + 20*time.Second, FairAfterSteps: 5000, FairAfter: deadline / 2}
		v := w.Run(sched, lim, func() bool { return st.allDone(w) && quiet(w) })
		if v != nil {
			res.Violations = append(res.Violations, *v)
		}
		// background goroutines of the backends must stay quiet
		if w.PanicCount() == 0 {
			for i := 0; i < 6; i++ {
				time.Sleep(10*time.Second + 7*time.Microsecond)
			}
		}
		res.Violations = append(res.Violations, panicViolations(w, "C05/panic")...)
		for _, c := range st.calls() {
			if c.Node == cfg.Culprit {
				continue
			}
			if !w.CallDone(c) {
				res.Violations = append(res.Violations, netsim.Violation{Invariant: "C05/no-return", Class: "C05/no-return/" + cfg.Deploy.Backend, Detail: fmt.Sprintf("KeyGen of honest party %d did not return by its deadline under deviation %s: %s", c.Node, dev, callSummary(st.calls()))})
				continue
			}
			if c.Err == nil && c.Panic == "" {
				completers = append(completers, c.Node)
				shares[c.Node] = c.Out
			}
		}
		var pids []uint16
		for id := range proxies {
			pids = append(pids, id)
		}
		sort.Slice(pids, func(i, j int) bool { return pids[i] < pids[j] })
		for _, id := range pids {
			p := proxies[id]
			p.mu.Lock()
			if p.violation != "" {
				res.Violations = append(res.Violations, netsim.Violation{Invariant: "C05/disclosure-order", Class: "C05/disclosure-order/" + cfg.Deploy.Backend, Detail: p.violation + " (deviation " + dev + ")"})
			}
			if p.revealed {
				w.Probes["honest-reveals"]++
			}
			p.mu.Unlock()
		}
		for k, n := range w.Faults {
			if len(k) > 4 && k[:4] == "dkg-" {
				fired += n
			}
		}
		w.Probes["honest-completions"] = len(completers)
		d.Teardown()
		fillResult(res, w, ss)
	})
	sort.Slice(completers, func(i, j int) bool { return completers[i] < completers[j] })
	if len(res.Violations) == 0 && len(completers) > 0 {
		var prob string
		var n int
		r := prng.Derive(spec.Seed, "oracle")
		if cfg.Deploy.Backend == "bls" {
			prob, n = blsOracleSubset(cfg.Deploy.IDs, completers, cfg.T, shares, r, lg)
		} else {
			var sub []uint16
			if len(completers) >= cfg.T {
				sub = completers
			}
			// public material must agree among all completers even when fewer than t completed
			prob, n = psOracle(cfg.Deploy.IDs, completers, max(cfg.T, 1), cfg.Deploy.PSMsgLen, shares, r, lg, 0)
			_ = sub
		}
		res.Probes["subsets-verified"] = n
		if prob != "" {
			res.Violations = append(res.Violations, netsim.Violation{Invariant: "C05/poisoned-key", Class: "C05/poisoned-key/" + cfg.Deploy.Backend, Detail: fmt.Sprintf("deviation %s by party %d against %v: %s", dev, cfg.Culprit, cfg.Victims, prob)})
		}
	}
	res.Nontrivial = fired > 0 || cfg.Deviation == "none"
	res.Fingerprint = res.ConfigKey + fmt.Sprint(cfg.Culprit, cfg.Victims) + res.Fingerprint
	return res
}

func init() {
	register(&Check{ID: "C05", Run: runC05})
}
