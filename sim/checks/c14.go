package checks

import (
	"encoding/json"
	"fmt"
	"strings"
	"sync"
	"testing"
	"time"

	"verif/sim/netsim"
	"verif/sim/prng"
	"verif/sim/simsync"

	"github.com/IBM/TSS/msg"
	tss "github.com/IBM/TSS/types"
)

// C14 — silent-mode buffer: exactly-once, in-order hand-off across the
// first-send race. Engine E2: the real msg.Box with its synchronisation
// primitives replaced (build overlay) by scheduler-aware shims; the seeded
// scheduler decides, at every lock / unlock / atomic operation, which caller
// proceeds.

type C14Msg struct {
	Topic int `json:"topic"`
}

type C14Cfg struct {
	Topics       int        `json:"topics"`
	Senders      [][]C14Msg `json:"senders"`   // per sender task: its HandleMessage calls in order
	SendTasks    [][]int    `json:"sendTasks"` // per sending task: topics of its Send calls in order
	HandlerSends bool       `json:"handlerSends"`
	Strategy     string     `json:"strategy"` // random | pct1 | pct2 | pct3 | delay
	Ticks        int        `json:"ticks"`
	// GCEpochs, when set: the buffer's expiry is this many ticks of its clock (production: 6), so that its
	// collector runs - and started topics may legitimately be forgotten - within a run of a few ticks
	GCEpochs int `json:"gcEpochs,omitempty"`
}

func genC14(seed uint64, tier string) C14Cfg {
	r := prng.Derive(seed, "cfg")
	c := C14Cfg{Topics: r.Range(1, 3), HandlerSends: r.Bool(0.3), Strategy: pickStr(r, []string{"random", "random", "pct1", "pct2", "pct3", "delay"}), Ticks: r.Intn(3)}
	ns := r.Range(1, 3)
	for s := 0; s < ns; s++ {
		var ms []C14Msg
		k := r.Range(1, 4)
		for i := 0; i < k; i++ {
			ms = append(ms, C14Msg{Topic: r.Intn(c.Topics)})
		}
		c.Senders = append(c.Senders, ms)
	}
	nt := r.Range(1, 3)
	for s := 0; s < nt; s++ {
		var ts []int
		k := r.Range(1, 2)
		for i := 0; i < k; i++ {
			ts = append(ts, r.Intn(c.Topics))
		}
		c.SendTasks = append(c.SendTasks, ts)
	}
	if rg := prng.Derive(seed, "gc"); rg.Bool(0.35) {
		c.GCEpochs = rg.Range(2, 3) // (the buffer insists on an expiry of at least two sweep periods)
		c.Ticks = rg.Intn(8)
	}
	return c
}

type c14Handler struct {
	mu     sync.Mutex
	log    []string // "topic/sender/seq"
	box    *msg.Box
	sends  bool
	topics [][]byte
	onSend func(topic []byte) // told about every Send the handler is about to make
}

func (h *c14Handler) HandleMessage(m *tss.IncMessage) {
	// a caller can be pre-empted between the buffer's decision to hand a message over and the hand-over itself:
	// the entry of the handler is a scheduling point like any lock operation
	simsync.Yield(simsync.OpOther, 1)
	h.mu.Lock()
	h.log = append(h.log, string(m.Data))
	h.mu.Unlock()
	if h.sends {
		// as the orchestrator does when it acknowledges a broadcast
		if h.onSend != nil {
			h.onSend(m.Topic)
		}
		h.box.Send(uint8(tss.MsgTypeMPC), m.Topic, []byte("ack"), 1)
	}
}

type coopPicker struct {
	r        *prng.Rand
	strategy string
	prio     map[string]float64
	changes  map[int]bool
	step     int
	script   []netsim.Action
	pos      int
	lenient  bool
	scripted bool
	diverged string
}

func (p *coopPicker) pick(s *simsync.Sched, enabled []*simsync.Task, canTick bool) (t *simsync.Task, tick bool) {
	p.step++
	if p.scripted {
		for p.pos < len(p.script) {
			a := p.script[p.pos]
			p.pos++
			if a.K == "tick" {
				if canTick {
					return nil, true
				}
				continue
			}
			for _, e := range enabled {
				if "x:"+e.Name == a.K {
					return e, false
				}
			}
			if !p.lenient {
				p.diverged = fmt.Sprintf("action %d %s not enabled", p.pos-1, a.K)
				break
			}
		}
		return enabled[0], false // canonical tail: lowest task id
	}
	if canTick && p.r.Bool(0.04) {
		return nil, true
	}
	switch {
	case strings.HasPrefix(p.strategy, "pct"):
		if p.prio == nil {
			p.prio = map[string]float64{}
			p.changes = map[int]bool{}
			d := int(p.strategy[3] - '0')
			for i := 0; i < d; i++ {
				p.changes[1+p.r.Intn(60)] = true
			}
		}
		best := enabled[0]
		for _, e := range enabled {
			if _, ok := p.prio[e.Name]; !ok {
				p.prio[e.Name] = 1 + p.r.Float64()
			}
			if p.prio[e.Name] > p.prio[best.Name] {
				best = e
			}
		}
		if p.changes[p.step] {
			p.prio[best.Name] = p.r.Float64() // demote the running task
		}
		return best, false
	case p.strategy == "delay":
		// run the lowest task id, with a few seeded deviations
		if p.r.Bool(0.12) {
			return enabled[p.r.Intn(len(enabled))], false
		}
		return enabled[0], false
	}
	return enabled[p.r.Intn(len(enabled))], false
}

func runC14(t *testing.T, spec RunSpec) *RunResult {
	var cfg C14Cfg
	if spec.Cfg != nil {
		if err := json.Unmarshal(spec.Cfg, &cfg); err != nil {
			panic(err)
		}
	} else {
		cfg = genC14(spec.Seed, spec.Tier)
	}
	res := &RunResult{Property: "C14", Seed: spec.Seed, Cfg: mustJSON(cfg), Strategy: cfg.Strategy, Probes: map[string]int{}, Faults: map[string]int{}}
	nm := 0
	for _, s := range cfg.Senders {
		nm += len(s)
	}
	res.ConfigKey = fmt.Sprintf("topics=%d senders=%d msgs=%d sendTasks=%d handlerSends=%v", cfg.Topics, len(cfg.Senders), nm, len(cfg.SendTasks), cfg.HandlerSends)
	var acts []netsim.Action
	var sink func(netsim.Action)
	if spec.TraceFile != "" {
		w := &netsim.World{}
		trace(spec, res.Cfg, w)
		sink = w.ActionSink
	}
	record := func(a netsim.Action) {
		acts = append(acts, a)
		if sink != nil {
			sink(a)
		}
	}
	bubble(t, func() {
		sched := simsync.NewSched()
		defer sched.Close()
		tick := make(chan time.Time)
		gcEpochs := 6
		if cfg.GCEpochs > 0 {
			gcEpochs = cfg.GCEpochs
		}
		epoch := 0                      // ticks delivered to the buffer's clock so far
		firstSendEpoch := map[int]int{} // topic -> epoch at which the first Send on it was about to begin
		noteSend := func(tp int) {
			if _, ok := firstSendEpoch[tp]; !ok {
				firstSendEpoch[tp] = epoch
			}
		}
		h := &c14Handler{sends: cfg.HandlerSends}
		box := &msg.Box{
			Logger: NewCountLogger(), MaxInFlightTopicsBySender: 10000, GCSweep: 20 * time.Second, GCExpire: time.Duration(gcEpochs) * 20 * time.Second,
			NewTicker:      func(time.Duration) *time.Ticker { return &time.Ticker{C: tick} },
			ForwardSend:    func(msgType uint8, topic []byte, m []byte, to ...tss.UniversalID) { simsync.Yield(simsync.OpOther, 2) },
			MessageHandler: h,
		}
		h.box = box
		var topics [][]byte
		for i := 0; i < cfg.Topics; i++ {
			topics = append(topics, sha([]byte(fmt.Sprintf("topic-%d", i))))
		}
		h.onSend = func(topic []byte) {
			for i := range topics {
				if string(topics[i]) == string(topic) {
					noteSend(i)
				}
			}
		}
		// arrival order per (topic, sender) = order of that sender's calls
		arrival := map[string][]string{}
		var tasks []*simsync.Task
		for si, ms := range cfg.Senders {
			si, ms := si, ms
			src := uint16(10 + si)
			for i, m := range ms {
				id := fmt.Sprintf("%d/%d/%d", m.Topic, src, i)
				k := fmt.Sprintf("%d/%d", m.Topic, src)
				arrival[k] = append(arrival[k], id)
			}
			tasks = append(tasks, sched.Go(fmt.Sprintf("recv%d", si), func() {
				for i, m := range ms {
					id := fmt.Sprintf("%d/%d/%d", m.Topic, src, i)
					box.HandleMessage(&tss.IncMessage{MsgType: uint8(tss.MsgTypeMPC), Topic: topics[m.Topic], Source: src, Data: []byte(id)})
				}
			}))
		}
		started := map[int]bool{}
		for ti, ts := range cfg.SendTasks {
			ts := ts
			for _, tp := range ts {
				started[tp] = true
			}
			tasks = append(tasks, sched.Go(fmt.Sprintf("send%d", ti), func() {
				for _, tp := range ts {
					noteSend(tp)
					box.Send(uint8(tss.MsgTypeMPC), topics[tp], []byte("proto"), 1)
				}
			}))
		}
		p := &coopPicker{r: prng.Derive(spec.Seed, "sched"), strategy: cfg.Strategy}
		if spec.Scripted || spec.Actions != nil {
			p.scripted, p.script, p.lenient = true, spec.Actions, spec.Lenient
		}
		ticksLeft := cfg.Ticks
		viol := func(class, detail string) {
			res.Violations = append(res.Violations, netsim.Violation{Invariant: "C14/" + class, Class: "C14/" + class, Detail: detail})
		}
		steps := 0
		for {
			st := sched.Poll()
			if len(st.Panics) > 0 {
				viol("panic", strings.Join(st.Panics, "; "))
				break
			}
			if st.AllDone {
				break
			}
			if st.Deadlock {
				var bl []string
				for _, b := range st.Blocked {
					bl = append(bl, b.Name+" wants "+sched.Describe(b))
				}
				viol("deadlock", "no task can proceed: "+strings.Join(bl, ", "))
				break
			}
			steps++
			if steps > 20000 {
				viol("livelock", "step budget exhausted")
				break
			}
			tk, doTick := p.pick(sched, st.Enabled, ticksLeft > 0)
			if doTick {
				ticksLeft--
				res.Faults["clock-tick"]++
				record(netsim.Action{K: "tick"})
				select {
				case tick <- time.Now():
					epoch++
				default: // the clock goroutine does not exist before the first use of the box
				}
				continue
			}
			record(netsim.Action{K: "x:" + tk.Name, C: sched.Describe(tk)})
			sched.Release(tk)
		}
		res.Diverged = p.diverged
		res.Steps = steps
		res.Probes["yields"] = sched.Yields
		if len(res.Violations) == 0 {
			if cfg.HandlerSends {
				// the handler started every topic on which a message was handed over
				h.mu.Lock()
				for _, id := range h.log {
					var tp int
					fmt.Sscanf(id, "%d/", &tp)
					started[tp] = true
				}
				h.mu.Unlock()
			}
			// a merely late hand-off is not a loss: one more Send per started topic (root goroutine, not a task)
			mid := len(h.log)
			for tp := range topics {
				if started[tp] {
					box.Send(uint8(tss.MsgTypeMPC), topics[tp], []byte("flush"), 1)
				}
			}
			res.Probes["released-only-by-extra-send"] = len(h.log) - mid
			// a message must not depend on a FURTHER Send for its hand-over (the party may never send on the topic
			// again) - unless the topic may legitimately have been forgotten: its last Send is at least as recent as
			// the epoch at which its first Send began, and the collector forgets a topic only when more than the
			// expiry (in epochs) has passed since
			for _, id := range h.log[mid:] {
				var tp int
				fmt.Sscanf(id, "%d/", &tp)
				if fe, ok := firstSendEpoch[tp]; ok && epoch-fe <= gcEpochs {
					viol("withheld", fmt.Sprintf("message %s was received on a started topic and handed to the dispatcher only when the local party sent on that topic once more (the topic began to send at epoch %d, it is epoch %d now, the buffer forgets a topic after more than %d epochs); hand-offs before the further send: %v", id, fe, epoch, gcEpochs, h.log[:mid]))
					break
				}
			}
			count := map[string]int{}
			order := map[string][]string{}
			for _, id := range h.log {
				count[id]++
				parts := strings.Split(id, "/")
				k := parts[0] + "/" + parts[1]
				order[k] = append(order[k], id)
			}
			for k, arr := range arrival {
				var tp int
				fmt.Sscanf(k, "%d/", &tp)
				for _, id := range arr {
					switch {
					case started[tp] && count[id] == 0:
						viol("lost", fmt.Sprintf("message %s (topic/sender/seq) was received on a started topic but never handed to the dispatcher, even after a further Send; hand-offs: %v", id, h.log))
					case count[id] > 1:
						viol("duplicate", fmt.Sprintf("message %s was handed to the dispatcher %d times; hand-offs: %v", id, count[id], h.log))
					case !started[tp] && count[id] > 0:
						viol("premature", fmt.Sprintf("message %s was handed over although the local party never sent on its topic", id))
					}
				}
				if started[tp] && len(res.Violations) == 0 && strings.Join(order[k], ",") != strings.Join(arr, ",") {
					viol("reordered", fmt.Sprintf("topic/sender %s: arrival order %v, hand-off order %v", k, arr, order[k]))
				}
			}
		}
		func() {
			defer func() { recover() }()
			box.Stop()
		}()
		// non-trivial: some receive call was pre-empted between its first and last synchronisation operation by a Send task
		inter := 0
		lastRecv := ""
		for _, a := range acts {
			if strings.HasPrefix(a.K, "x:recv") {
				lastRecv = a.K
			} else if strings.HasPrefix(a.K, "x:send") && lastRecv != "" {
				inter++
				lastRecv = ""
			}
		}
		res.Probes["recv-send-alternations"] = inter
		res.Nontrivial = inter > 0 && sched.Yields > 0
	})
	res.Actions = acts
	var sb strings.Builder
	for _, a := range acts {
		sb.WriteString(a.K + "/" + a.C + ";")
	}
	res.Fingerprint = fmt.Sprintf("%x", prng.Hash64([]byte(sb.String())))
	res.ContentHash = res.Fingerprint
	var smp []string
	for i, a := range acts {
		if i >= 50 {
			smp = append(smp, "…")
			break
		}
		smp = append(smp, strings.TrimPrefix(a.K, "x:")+":"+a.C)
	}
	res.Sample = strings.Join(smp, " ")
	if res.Probes["yields"] == 0 {
		res.Violations = nil
		res.Skipped = true
		res.Sample = "msg.Box is not instrumented in this binary (built without the coop overlay)"
	}
	return res
}

func init() {
	register(&Check{ID: "C14", Run: runC14})
}
