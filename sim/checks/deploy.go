package checks

import (
	"context"
	"crypto/sha256"
	"encoding/binary"
	"fmt"
	"runtime"
	"sort"
	"strings"
	"sync"
	"sync/atomic"
	"time"

	"verif/sim/netsim"
	"verif/sim/prng"
	"verif/sim/scripted"

	"github.com/IBM/TSS/mpc/bls"
	"github.com/IBM/TSS/threshold"
	tss "github.com/IBM/TSS/types"
)

// CountLogger is the logger stub: it counts format strings (used as reach
// probes) and never formats or prints.
type CountLogger struct {
	mu     sync.Mutex
	Counts map[string]int
	// Quiet: count nothing and touch no shared memory. Under the race detector a logger that takes a lock (or
	// uses an atomic) orders every two goroutines that log, and the code under test logs between most of its
	// accesses: a shared counting logger hides races. C20 runs with a quiet logger that yields the processor now
	// and then instead (a yield creates no happens-before edge).
	Quiet bool
	Salt  uint64
}

func NewCountLogger() *CountLogger { return &CountLogger{Counts: map[string]int{}} }

func (l *CountLogger) hit(level, f string) {
	if l.Quiet {
		// a quarter of the call sites (chosen per run) linger: the goroutine stays runnable for a while between the
		// accesses before and after the log call, so that unordered accesses of two goroutines meet more often
		if (prng.Hash64([]byte(f))^l.Salt)%4 == 0 {
			for i := 0; i < 60; i++ {
				runtime.Gosched()
			}
		}
		return
	}
	l.mu.Lock()
	l.Counts[level+":"+f]++
	l.mu.Unlock()
}
func (l *CountLogger) DebugEnabled() bool                     { return false }
func (l *CountLogger) Debugf(format string, a ...interface{}) { l.hit("D", format) }
func (l *CountLogger) Infof(format string, a ...interface{})  { l.hit("I", format) }
func (l *CountLogger) Warnf(format string, a ...interface{})  { l.hit("W", format) }
func (l *CountLogger) Errorf(format string, a ...interface{}) { l.hit("E", format) }

// Summary lists the counts of all formats logged at one of the given levels.
func (l *CountLogger) Summary(levels string) string {
	l.mu.Lock()
	defer l.mu.Unlock()
	var ks []string
	for k := range l.Counts {
		if strings.Contains(levels, k[:1]) {
			ks = append(ks, k)
		}
	}
	sort.Strings(ks)
	var sb strings.Builder
	for _, k := range ks {
		f := k
		if len(f) > 70 {
			f = f[:70]
		}
		fmt.Fprintf(&sb, "{%s x%d} ", f, l.Counts[k])
	}
	return sb.String()
}

// Count returns the number of log calls whose format contains sub.
func (l *CountLogger) Count(sub string) int {
	l.mu.Lock()
	defer l.mu.Unlock()
	n := 0
	for k, v := range l.Counts {
		if strings.Contains(k, sub) {
			n += v
		}
	}
	return n
}

type DeployCfg struct {
	IDs             []uint16          `json:"ids"`       // universal ids of the nodes that exist
	PIDs            map[uint16]uint16 `json:"pids"`      // membership map (all configured nodes, may be a superset of IDs)
	Silent          bool              `json:"silent"`    // SilentScheme vs LoudScheme
	Threshold       int               `json:"threshold"` // Scheme.Threshold (signing needs Threshold+1 nodes)
	Backend         string            `json:"backend"`   // scripted | bls | ps | eddsa | ecdsa
	SP              scripted.Params   `json:"sp"`
	SignSP          scripted.Params   `json:"signSp"`
	PickUnsorted    bool              `json:"pickUnsorted,omitempty"`
	PickFixed       []uint16          `json:"pickFixed,omitempty"` // silent mode: members returned for every topic (truncated to the expected count)
	PSMsgLen        int               `json:"psMsgLen,omitempty"`
	PickDelayMs     int               `json:"pickDelayMs,omitempty"`     // silent mode: the member selection callback takes this long on the simulated clock
	RealInitDelayMs int               `json:"realInitDelayMs,omitempty"` // bls / ps / adapters: Init takes this long on the simulated clock (see scripted.Params.InitDelayMs)
	QuietLog        bool              `json:"quietLog,omitempty"`        // the logger touches no shared memory and lingers at some sites (concurrent-dispatch runs)
	QuietRec        bool              `json:"quietRec,omitempty"`        // neither do recorder and proxies (race-detector runs, whose verdict is the detector's)
}

type Deployment struct {
	W       *netsim.World
	Cfg     DeployCfg
	Parties map[uint16]tss.MpcParty
	Rec     *scripted.Recorder
	Log     *CountLogger
	Logs    map[uint16]*CountLogger
	// every scripted backend instance created, per node in creation order
	KG      map[uint16][]*scripted.Backend
	SG      map[uint16][]*scripted.Backend
	BLS     map[uint16][]*bls.TBLS
	cancels []context.CancelFunc
	mu      sync.Mutex
	// WrapKG / WrapSG let a check interpose on the backend (recording proxy, Byzantine behaviour)
	WrapKG func(node uint16, kg tss.KeyGenerator) tss.KeyGenerator
	WrapSG func(node uint16, sg tss.Signer) tss.Signer
}

func identityPIDs(ids []uint16) map[uint16]uint16 {
	m := map[uint16]uint16{}
	for _, id := range ids {
		m[id] = id
	}
	return m
}

// PickMembers is the deterministic member selection handed to SilentScheme:
// a pseudo-random subset of the configured nodes derived from the topic.
func PickMembers(all []uint16, unsorted bool) func(topic []byte, expected int) []uint16 {
	return func(topic []byte, expected int) []uint16 {
		ids := append([]uint16(nil), all...)
		sort.Slice(ids, func(i, j int) bool { return ids[i] < ids[j] })
		// Fisher-Yates driven by a hash chain of the topic
		h := sha256.Sum256(append([]byte("pick"), topic...))
		for i := len(ids) - 1; i > 0; i-- {
			h = sha256.Sum256(h[:])
			j := int(binary.BigEndian.Uint32(h[:4]) % uint32(i+1))
			ids[i], ids[j] = ids[j], ids[i]
		}
		if expected > len(ids) {
			expected = len(ids)
		}
		res := ids[:expected]
		if !unsorted {
			sort.Slice(res, func(i, j int) bool { return res[i] < res[j] })
		}
		return res
	}
}

func NewDeployment(w *netsim.World, cfg DeployCfg) *Deployment {
	d := &Deployment{W: w, Cfg: cfg, Parties: map[uint16]tss.MpcParty{}, Log: NewCountLogger(), Logs: map[uint16]*CountLogger{},
		KG: map[uint16][]*scripted.Backend{}, SG: map[uint16][]*scripted.Backend{}, BLS: map[uint16][]*bls.TBLS{}}
	d.Log.Quiet = cfg.QuietLog
	d.Log.Salt = w.Seed
	d.Rec = &scripted.Recorder{StepFn: func() int64 { return w.StepA() }, Quiet: cfg.QuietRec}
	if cfg.PIDs == nil {
		d.Cfg.PIDs = identityPIDs(cfg.IDs)
	}
	return d
}

func (d *Deployment) membership() map[tss.UniversalID]tss.PartyID {
	m := map[tss.UniversalID]tss.PartyID{}
	for u, p := range d.Cfg.PIDs {
		m[tss.UniversalID(u)] = tss.PartyID(p)
	}
	return m
}

func (d *Deployment) allConfigured() []uint16 {
	var ids []uint16
	for u := range d.Cfg.PIDs {
		ids = append(ids, u)
	}
	sort.Slice(ids, func(i, j int) bool { return ids[i] < ids[j] })
	return ids
}

// Build creates the real Scheme of every node in cfg.IDs and registers it with the world.
func (d *Deployment) Build() {
	for _, id := range d.Cfg.IDs {
		d.buildNode(id)
	}
}

func (d *Deployment) buildNode(id uint16) {
	cfg := d.Cfg
	w := d.W
	lg := d.Log
	var kgf tss.KeyGenFactory
	var sf tss.SignerFactory
	switch cfg.Backend {
	case "scripted":
		kgf = func(fid uint16) tss.KeyGenerator {
			d.mu.Lock()
			b := &scripted.Backend{Node: id, SelfPID: cfg.PIDs[id], Instance: fmt.Sprintf("kg%d", len(d.KG[id])+1), P: cfg.SP, Seed: w.Seed, Rec: d.Rec}
			d.KG[id] = append(d.KG[id], b)
			d.mu.Unlock()
			if d.WrapKG != nil {
				return d.WrapKG(id, b)
			}
			return b
		}
		sf = func(fid uint16) tss.Signer {
			d.mu.Lock()
			b := &scripted.Backend{Node: id, SelfPID: cfg.PIDs[id], Instance: fmt.Sprintf("sg%d", len(d.SG[id])+1), P: cfg.SignSP, Seed: w.Seed, Rec: d.Rec}
			d.SG[id] = append(d.SG[id], b)
			d.mu.Unlock()
			if d.WrapSG != nil {
				return d.WrapSG(id, b)
			}
			return b
		}
	case "bls":
		kgf = func(fid uint16) tss.KeyGenerator {
			b := &bls.TBLS{Logger: lg, Party: fid}
			d.mu.Lock()
			d.BLS[id] = append(d.BLS[id], b)
			d.mu.Unlock()
			if d.WrapKG != nil {
				return d.WrapKG(id, b)
			}
			return b
		}
		sf = func(fid uint16) tss.Signer {
			b := &bls.TBLS{Logger: lg, Party: fid}
			if d.WrapSG != nil {
				return d.WrapSG(id, b)
			}
			return b
		}
	default:
		kgf, sf = extraBackend(d, id, cfg.Backend)
	}
	if cfg.RealInitDelayMs > 0 && cfg.Backend != "scripted" {
		innerKG, innerSG := kgf, sf
		var ninst atomic.Int64
		delay := func() time.Duration {
			return scripted.SimDelay(cfg.RealInitDelayMs, []byte{byte(id), byte(id >> 8), byte(ninst.Add(1))})
		}
		kgf = func(fid uint16) tss.KeyGenerator { return &slowInitKG{KeyGenerator: innerKG(fid), d: delay()} }
		sf = func(fid uint16) tss.Signer { return &slowInitSG{Signer: innerSG(fid), d: delay()} }
	}
	send := w.SendFunc(id)
	var p tss.MpcParty
	if cfg.Silent {
		pick := PickMembers(d.allConfigured(), cfg.PickUnsorted)
		if cfg.PickFixed != nil {
			pick = func(topic []byte, expected int) []uint16 {
				if expected > len(cfg.PickFixed) {
					expected = len(cfg.PickFixed)
				}
				return append([]uint16(nil), cfg.PickFixed[:expected]...)
			}
		}
		if cfg.PickDelayMs > 0 {
			inner := pick
			pick = func(topic []byte, expected int) []uint16 {
				time.Sleep(scripted.SimDelay(cfg.PickDelayMs, topic, []byte{byte(id), byte(id >> 8)}))
				return inner(topic, expected)
			}
		}
		p = threshold.SilentScheme(id, lg, kgf, sf, cfg.Threshold, send, d.membership, pick)
	} else {
		p = threshold.LoudScheme(id, lg, kgf, sf, cfg.Threshold, send, d.membership)
	}
	d.Parties[id] = p
	w.AddNode(id, p)
}

// slowInitKG / slowInitSG: a backend whose initialisation is not instantaneous.
type slowInitKG struct {
	tss.KeyGenerator
	d time.Duration
}

func (s *slowInitKG) Init(parties []uint16, threshold int, sendMsg func(msg []byte, isBroadcast bool, to uint16)) {
	time.Sleep(s.d)
	s.KeyGenerator.Init(parties, threshold, sendMsg)
}

type slowInitSG struct {
	tss.Signer
	d time.Duration
}

func (s *slowInitSG) Init(parties []uint16, threshold int, sendMsg func(msg []byte, isBroadcast bool, to uint16)) {
	time.Sleep(s.d)
	s.Signer.Init(parties, threshold, sendMsg)
}

// Ctx returns a context that the deployment cancels at teardown.
func (d *Deployment) Ctx(timeout time.Duration) (context.Context, context.CancelFunc) {
	var ctx context.Context
	var cancel context.CancelFunc
	if timeout > 0 {
		ctx, cancel = context.WithTimeout(context.Background(), timeout)
	} else {
		ctx, cancel = context.WithCancel(context.Background())
	}
	d.mu.Lock()
	d.cancels = append(d.cancels, cancel)
	d.mu.Unlock()
	return ctx, cancel
}

// Teardown cancels every context, stops the silent-mode boxes and lets the
// goroutines unwind, so that the bubble can end.
func (d *Deployment) Teardown() {
	d.mu.Lock()
	cs := d.cancels
	d.cancels = nil
	d.mu.Unlock()
	for _, c := range cs {
		c()
	}
	time.Sleep(time.Second)
	for _, p := range d.Parties {
		if st, ok := p.(interface{ Stop() }); ok {
			func() {
				defer func() { recover() }() // Stop on a never-initialised Box dereferences nil
				st.Stop()
			}()
		}
	}
	time.Sleep(time.Millisecond)
}
