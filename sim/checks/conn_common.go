//go:build verif_connsim

package checks

import (
	"crypto/rand"
	"crypto/sha256"
	"crypto/tls"
	"crypto/x509"
	"encoding/asn1"
	"encoding/hex"
	"fmt"
	stdnet "net"
	"strings"
	"sync"
	"time"

	"verif/sim/connsim"
	"verif/sim/netsim"

	comm "github.com/IBM/TSS/net"
	"github.com/IBM/TSS/testutil/tlsgen"
)

// connWorld is a deployment of real net.go parties over the simulated byte-stream network.

type connRecv struct {
	msg  comm.InMsg
	step int64
}

type connParty struct {
	id      int
	host    string
	ident   *tlsgen.CertKeyPair
	remotes comm.SocketRemoteParties
	in      <-chan comm.InMsg
	stop    func()
	mu      sync.Mutex
	recv    []connRecv
}

type connWorld struct {
	w       *netsim.World
	net     *connsim.Net
	ca      tlsgen.CA
	pool    *x509.CertPool
	parties map[int]*connParty
	ids     []int
	domain  string
	log     *CountLogger
	p2id    map[string]uint16
}

type connLogger struct{ *CountLogger }

func (connLogger) DebugEnabled() bool { return false }

func lookupKey(domain string, identity []byte) string {
	h := sha256.New()
	h.Write([]byte(domain))
	h.Write(identity)
	return hex.EncodeToString(h.Sum(nil))
}

func signHandshake(id *tlsgen.CertKeyPair, h comm.Handshake) comm.Handshake {
	h.Signature = nil
	d := sha256.Sum256(h.Bytes())
	sig, err := id.Sign(rand.Reader, d[:], nil)
	if err != nil {
		panic(err)
	}
	h.Signature = sig
	return h
}

// newConnWorld must be called inside the bubble (certificates are created on the simulated clock).
func newConnWorld(seed uint64, n int, domain string, extraRegistered ...map[int][]byte) *connWorld {
	cw := &connWorld{w: netsim.NewWorld(seed), net: connsim.NewNet(seed), parties: map[int]*connParty{}, domain: domain, log: NewCountLogger(), p2id: map[string]uint16{}}
	ca, err := tlsgen.NewCA()
	if err != nil {
		panic(err)
	}
	cw.ca = ca
	cw.pool = x509.NewCertPool()
	cw.pool.AppendCertsFromPEM(ca.CertBytes())
	comm.VerifDialer = cw.net.Dial
	for i := 1; i <= n; i++ {
		id, err := ca.NewClientCertKeyPair()
		if err != nil {
			panic(err)
		}
		p := &connParty{id: i, host: fmt.Sprintf("p%d.sim", i), ident: id}
		cw.parties[i] = p
		cw.ids = append(cw.ids, i)
		cw.p2id[lookupKey(domain, id.Cert)] = uint16(i)
	}
	// further registered identities that no running party owns (e.g. identities with unsupported key types)
	for _, m := range extraRegistered {
		for id, pemBytes := range m {
			cw.p2id[lookupKey(domain, pemBytes)] = uint16(id)
		}
	}
	for _, i := range cw.ids {
		p := cw.parties[i]
		srv, err := ca.NewServerCertKeyPair(p.host)
		if err != nil {
			panic(err)
		}
		cert, err := tls.X509KeyPair(srv.Cert, srv.Key)
		if err != nil {
			panic(err)
		}
		lsnr := tls.NewListener(cw.net.Listen(p.host), &tls.Config{Certificates: []tls.Certificate{cert}, MinVersion: tls.VersionTLS13, SessionTicketsDisabled: true})
		p2id := map[string]uint16{}
		for k, v := range cw.p2id {
			p2id[k] = v
		}
		p.in, p.stop = comm.ServiceConnections(lsnr, p2id, connLogger{cw.log})
		p.remotes = comm.SocketRemoteParties{}
		for _, j := range cw.ids {
			if j == i {
				continue
			}
			ident := p.ident
			p.remotes[j] = comm.NewSocketRemoteParty(comm.PartyConnectionConfig{
				AuthFunc: func(binding []byte) comm.Handshake {
					return signHandshake(ident, comm.Handshake{Domain: domain, TLSBinding: binding, Identity: ident.Cert, Timestamp: time.Now().Unix()})
				},
				TlsCAs: cw.pool, Id: j, Endpoint: fmt.Sprintf("p%d.sim:%d", j, 1000+i), Domain: domain,
			}, connLogger{cw.log})
		}
		go func() {
			for m := range p.in {
				p.mu.Lock()
				p.recv = append(p.recv, connRecv{msg: m, step: cw.w.StepA()})
				p.mu.Unlock()
			}
		}()
	}
	return cw
}

func (cw *connWorld) received(id int) []connRecv {
	p := cw.parties[id]
	p.mu.Lock()
	defer p.mu.Unlock()
	return append([]connRecv(nil), p.recv...)
}

// releaseProposals offers one choice per pipe that holds unreleased bytes.
func (cw *connWorld) releaseProposals() []netsim.Proposal {
	var ps []netsim.Proposal
	for _, name := range cw.net.Releasable() {
		name := name
		ps = append(ps, netsim.Proposal{Key: "r:" + name, Weight: 1, Mandatory: true, Fire: func() { cw.net.Release(name) }})
	}
	return ps
}

func (cw *connWorld) teardown() {
	for _, p := range cw.parties {
		p.stop()
	}
	cw.net.Quiet = true
	for _, c := range cw.net.ConnNames() {
		cw.net.Reset(c)
	}
	// never fall back to the real tls.Dial inside a bubble: the resolver's process-wide singleflight group
	// would tie goroutines of different bubbles together
	comm.VerifDialer = func(network, addr string) (stdnet.Conn, error) { return nil, fmt.Errorf("simulated network is down") }
	time.Sleep(3 * time.Second)
	for k, v := range cw.net.Faults {
		cw.w.Faults[k] += v
	}
}

// rawClient is a harness-written peer: genuine TLS, then whatever bytes the scenario wants.
type rawClient struct {
	conn *tls.Conn
	err  error
	name string
}

// dialRaw opens a TLS connection to party `to` as if dialled from port `from` (a number >= 2000 for adversaries).
func (cw *connWorld) dialRaw(to int, port int) *rawClient {
	addr := fmt.Sprintf("p%d.sim:%d", to, port)
	raw, err := cw.net.Dial("tcp", addr)
	if err != nil {
		return &rawClient{err: err}
	}
	c := tls.Client(raw, &tls.Config{RootCAs: cw.pool, ServerName: fmt.Sprintf("p%d.sim", to), MinVersion: tls.VersionTLS13})
	if err := c.Handshake(); err != nil {
		return &rawClient{err: err}
	}
	return &rawClient{conn: c, name: strings.TrimSuffix(raw.(*connsim.Conn).Name, "")}
}

func (rc *rawClient) binding() []byte {
	cs := rc.conn.ConnectionState()
	b, err := cs.ExportKeyingMaterial("MPC", []byte("MPC"), 32)
	if err != nil {
		panic(err)
	}
	return b
}

// frame builds an application frame exactly as the wire format documents it:
// type, little-endian 32 bit payload length, 32-byte topic for topic-bearing types, payload.
func frame(typ uint8, topic, payload []byte, announce int) []byte {
	b := []byte{typ, byte(announce), byte(announce >> 8), byte(announce >> 16), byte(announce >> 24)}
	b = append(b, topic...)
	return append(b, payload...)
}

func handshakeFrame(hs []byte) []byte {
	return append([]byte{byte(len(hs)), byte(len(hs) >> 8)}, hs...)
}

// decodeHandshake is the harness' own reading of a handshake frame body.
func decodeHandshake(b []byte, h *comm.Handshake) error {
	_, err := asn1.Unmarshal(b, h)
	return err
}
