package checks

import (
	"bytes"
	"context"
	"encoding/json"
	"fmt"
	"sort"
	"strings"
	"testing"
	"time"

	"verif/sim/netsim"
	"verif/sim/prng"
	"verif/sim/scripted"

	tss "github.com/IBM/TSS/types"
)

// C12 — sessions leave no residue and do not interfere with one another.
//
// A run is a history of phases; the network is drained between phases, so a
// "later" call really is later than all traffic of the earlier session.

type C12Phase struct {
	Kind     string   `json:"kind"` // kg-ok | kg-missing | sg-ok | sg-missing | sg-cancel | sg-concurrent | sg-overlap
	Topics   []string `json:"topics,omitempty"`
	Missing  int      `json:"missing"`  // index (into the participants) of the absent / cancelling node
	CancelAt int      `json:"cancelAt"` // steps after all starts at which the cancellation is offered
	Outsider bool     `json:"outsider"` // non-participants inject copies of session traffic
}

type C12Cfg struct {
	Deploy     DeployCfg  `json:"deploy"`
	N          int        `json:"n"`
	Phases     []C12Phase `json:"phases"`
	Strategy   string     `json:"strategy"`
	Serial     bool       `json:"serial"`
	DeadlineMs int        `json:"deadlineMs"`
}

func genC12(seed uint64, tier string) C12Cfg {
	r := prng.Derive(seed, "cfg")
	n := r.Range(2, 4)
	if tier == "thorough" {
		n = r.Range(2, 5)
	}
	var ids []uint16
	for i := 1; i <= n; i++ {
		ids = append(ids, uint16(i))
	}
	if prng.Derive(seed, "wide-ids").Bool(0.25) {
		ids = wideIDs(prng.Derive(seed, "wide-ids/draw"), n)
	}
	c := C12Cfg{N: n, Strategy: pickStr(r, netsim.Strategies), Serial: true, DeadlineMs: 4000 + r.Intn(6000)}
	thr := n - 1
	if n >= 3 && r.Bool(0.5) {
		thr = n - 2
	}
	c.Deploy = DeployCfg{IDs: ids, Silent: r.Bool(0.4), Threshold: thr, Backend: "scripted", PickUnsorted: r.Bool(0.3)}
	c.Deploy.SP = genScriptedParams(r, 2)
	c.Deploy.SignSP = genScriptedParams(r, 2)
	pool := []string{"alpha", "beta", "gamma"}[:r.Range(1, 3)]
	np := r.Range(2, 5)
	failKinds := []string{"sg-missing", "sg-cancel", "sg-missing", "sg-overlap"}
	var lastFailedTopic string
	kgFailed := false
	for i := 0; i < np; i++ {
		var ph C12Phase
		ph.Missing = r.Intn(thr + 1)
		ph.CancelAt = r.Intn(60)
		ph.Outsider = r.Bool(0.3)
		switch {
		case kgFailed && r.Bool(0.8):
			ph.Kind = "kg-ok" // a key generation after a failed one
			ph.Missing = r.Intn(n)
			kgFailed = false
		case lastFailedTopic != "" && r.Bool(0.8):
			ph.Kind = "sg-ok"
			ph.Topics = []string{lastFailedTopic}
			lastFailedTopic = ""
		case r.Bool(0.16):
			ph.Kind = pickStr(r, []string{"kg-ok", "kg-ok", "kg-missing", "kg-cancel", "kg-overlap"})
			ph.Missing = r.Intn(n)
			kgFailed = ph.Kind != "kg-ok" && ph.Kind != "kg-overlap"
		case r.Bool(0.2) && len(pool) >= 2:
			ph.Kind = "sg-concurrent"
			p := r.Perm(len(pool))
			ph.Topics = []string{pool[p[0]], pool[p[1]]}
		case r.Bool(0.5):
			ph.Kind = pickStr(r, failKinds)
			ph.Topics = []string{pool[r.Intn(len(pool))]}
			if ph.Kind != "sg-overlap" {
				lastFailedTopic = ph.Topics[0]
			}
		default:
			ph.Kind = "sg-ok"
			ph.Topics = []string{pool[r.Intn(len(pool))]}
		}
		c.Phases = append(c.Phases, ph)
	}
	if kgFailed {
		c.Phases = append(c.Phases, C12Phase{Kind: "kg-ok"})
	}
	if lastFailedTopic != "" {
		c.Phases = append(c.Phases, C12Phase{Kind: "sg-ok", Topics: []string{lastFailedTopic}})
	}
	// silent mode: the member selection callback takes simulated time in a third of the runs (the window between
	// the first synchronisation and the registration of the handlers, for KeyGen as well as for Sign)
	if rp := prng.Derive(seed, "pick-delay"); c.Deploy.Silent && rp.Bool(0.35) {
		c.Deploy.PickDelayMs = rp.Range(1, 40)
	}
	// a third of the runs: the signing backend's Init takes simulated time, so that cancellations, deadlines and
	// messages can land between the end of the first synchronisation and the registration of the handlers
	if rd := prng.Derive(seed, "init-delay"); rd.Bool(0.35) {
		c.Deploy.SignSP.InitDelayMs = rd.Range(1, 40)
	}
	// a third of the runs: the backends do not return promptly once their context has ended (they linger for up to
	// a few simulated seconds), so that the call has returned to its caller - and the next phase has begun - while
	// the abandoned session's backend is still busy
	if rl := prng.Derive(seed, "linger"); rl.Bool(0.33) {
		c.Deploy.SP.LingerMs = rl.Range(50, 4000)
		c.Deploy.SignSP.LingerMs = rl.Range(50, 4000)
	}
	return c
}

type c12Call struct {
	phase  int
	topic  string
	node   uint16
	call   *netsim.Call
	expect string // ok | err | any
	role   string
}

func runC12(t *testing.T, spec RunSpec) *RunResult {
	var cfg C12Cfg
	if spec.Cfg != nil {
		if err := json.Unmarshal(spec.Cfg, &cfg); err != nil {
			panic(err)
		}
	} else {
		cfg = genC12(spec.Seed, spec.Tier)
	}
	res := &RunResult{Property: "C12", Seed: spec.Seed, Cfg: mustJSON(cfg), Strategy: cfg.Strategy}
	mode := "loud"
	if cfg.Deploy.Silent {
		mode = "silent"
	}
	var kinds []string
	for _, p := range cfg.Phases {
		kinds = append(kinds, p.Kind)
	}
	res.ConfigKey = fmt.Sprintf("n=%d T=%d %s %s", cfg.N, cfg.Deploy.Threshold, mode, strings.Join(kinds, ","))
	bubble(t, func() {
		w := netsim.NewWorld(spec.Seed)
		w.Serial = cfg.Serial
		if !cfg.Serial {
			w.MaxConc = 4
			w.JoinProposals = true
		}
		trace(spec, res.Cfg, w)
		d := NewDeployment(w, cfg.Deploy)
		d.Build()
		sched, ss := scheduler(spec, cfg.Strategy)
		r := prng.Derive(spec.Seed, "workload")
		deadline := time.Duration(cfg.DeadlineMs)*time.Millisecond + 13*time.Microsecond
		viol := func(class, detail string) {
			res.Violations = append(res.Violations, netsim.Violation{Invariant: "C12/" + class, Class: "C12/" + class + "/" + mode, Detail: detail})
		}
		var all []*c12Call
		phaseStart := make([]int, len(cfg.Phases)+1)
		stored := map[uint16][]byte{}
		var parties []uint16
		for _, id := range cfg.Deploy.IDs {
			parties = append(parties, id)
		}
		for _, id := range cfg.Deploy.IDs {
			stored[id] = fabricatedStored(parties, 2, id)
			d.Parties[id].SetStoredData(stored[id])
		}
		residueSeen := false
		for pi, ph := range cfg.Phases {
			if len(res.Violations) > 0 || w.PanicCount() > 0 {
				break
			}
			phaseStart[pi] = w.Step
			st := &starter{}
			var calls []*c12Call
			var cancelFn context.CancelFunc
			var cancelNode uint16
			add := func(topic string, node uint16, expect, role string, timeout time.Duration, isKG bool) {
				cc := &c12Call{phase: pi, topic: topic, node: node, expect: expect, role: role}
				calls = append(calls, cc)
				key := fmt.Sprintf("p%d:start:%s:%s:%d", pi, role, topic, node)
				ps := st.add(key, node, 3, func() *netsim.Call {
					ctx, c := d.Ctx(timeout)
					if role == "cancel" {
						cancelFn, cancelNode = c, node
					}
					p := d.Parties[node]
					if isKG {
						cc.call = w.StartCall("KeyGen", node, func() ([]byte, error) { return p.KeyGen(ctx, cfg.N, 2) })
					} else {
						dg := sha([]byte(fmt.Sprintf("digest/%d/%s", pi, topic)))
						cc.call = w.StartCall("Sign:"+topic, node, func() ([]byte, error) { return p.Sign(ctx, dg, topic) })
					}
					return cc.call
				})
				if strings.HasPrefix(role, "overlap") {
					ps.Weight = 0.3
				}
				if role == "extra" {
					ps.Weight = 0.2
					ps.JoinWith = true
					ps.JoinClass = "sync."
					ps.JoinP = 0.25
				}
			}
			var members []uint16
			switch ph.Kind {
			case "kg-ok", "kg-missing", "kg-cancel", "kg-overlap":
				members = append(members, cfg.Deploy.IDs...)
				for i, id := range cfg.Deploy.IDs {
					if ph.Kind == "kg-missing" && i == ph.Missing%cfg.N {
						continue
					}
					exp, role := "ok", "kg"
					if ph.Kind == "kg-missing" {
						exp = "err"
					}
					if ph.Kind == "kg-cancel" {
						exp = "any"
						if i == ph.Missing%cfg.N {
							role = "cancel"
						}
					}
					add("DKG", id, exp, role, deadline, true)
					if ph.Kind == "kg-overlap" && i == ph.Missing%cfg.N {
						// the same node calls KeyGen a second and, in half of the cases, a third time while the first is running
						add("DKG", id, "err", "overlap", deadline, true)
						if ph.CancelAt%2 == 0 {
							add("DKG", id, "err", "overlap2", deadline, true)
						}
					}
				}
			default:
				for ti, topic := range ph.Topics {
					signers := signersFor(d, r, topic)
					members = append(members, signers...)
					for i, id := range signers {
						exp, role := "ok", "sign"
						switch ph.Kind {
						case "sg-missing":
							if i == ph.Missing%len(signers) {
								continue
							}
							exp = "err"
						case "sg-cancel":
							exp = "any"
							if i == ph.Missing%len(signers) {
								role = "cancel"
							}
						case "sg-extra":
							exp = "any"
						}
						add(topic, id, exp, role, deadline, false)
						if ph.Kind == "sg-extra" && i == len(signers)-1 {
							// one member too many (race-detector runs only): a member outside the selected set calls Sign on
							// the same topic, late, in the very step in which a message is dispatched into it
							isSigner := map[uint16]bool{}
							for _, sid := range signers {
								isSigner[sid] = true
							}
							for _, xid := range cfg.Deploy.IDs {
								if !isSigner[xid] {
									add(topic, xid, "any", "extra", deadline, false)
									break
								}
							}
						}
						if ph.Kind == "sg-overlap" && i == ph.Missing%len(signers) && ti == 0 {
							// the same node calls Sign on the same topic a second time while the first is running
							add(topic, id, "err", "overlap", deadline, false)
							if ph.CancelAt%2 == 0 {
								add(topic, id, "err", "overlap2", deadline, false) // and a third time
							}
						}
					}
				}
			}
			// adversary: non-participants re-send copies of the session's traffic
			var adv *Adversary
			if ph.Outsider {
				inSession := map[uint16]bool{}
				for _, id := range members {
					inSession[id] = true // a picked member that is merely absent is not an outsider
				}
				var outs, honest []uint16
				for _, id := range cfg.Deploy.IDs {
					if !inSession[id] {
						outs = append(outs, id)
					} else {
						honest = append(honest, id)
					}
				}
				unknown := uint16(900) // an id that is not in the membership at all
				for {
					clash := false
					for _, id := range cfg.Deploy.IDs {
						if id == unknown {
							clash = true
						}
					}
					if !clash {
						break
					}
					unknown++
				}
				outs = append(outs, unknown)
				topics := map[string]bool{string(sha([]byte("DKG"))): true}
				for _, tp := range ph.Topics {
					topics[string(sha([]byte(tp)))] = true
				}
				adv = &Adversary{W: w, Seed: spec.Seed + uint64(pi), Byz: map[uint16]bool{}, Honest: honest, Outsider: outs, Topics: topics, Kinds: map[string]bool{"outsider": true}, Budget: 6, Rate: 2}
				adv.scanned = len(w.WireLog)
			}
			allStartedAt := -1
			cancelled := false
			dupScanned := len(w.WireLog)
			var dups []dupMsg
			dupFired := map[string]bool{}
			w.Propose = func() []netsim.Proposal {
				ps := st.proposals()
				// the overlapping call may only start once the first call of that node is running
				var out []netsim.Proposal
				for _, p := range ps {
					if strings.Contains(p.Key, ":start:overlap") {
						firstRunning, firstDone := false, false
						for _, c := range calls {
							if !strings.HasPrefix(c.role, "overlap") && c.call != nil && c.node == nodeOfKey(p.Key) {
								firstRunning = true
								firstDone = w.CallDone(c.call)
							}
						}
						if firstDone {
							// too late for an overlapping call: a second call now would be a
							// sequential re-use of the topic, which is another scenario
							st.drop(p.Key)
							for _, c := range calls {
								if strings.HasPrefix(c.role, "overlap") && c.call == nil {
									c.role = "dropped"
								}
							}
							continue
						}
						if !firstRunning {
							continue
						}
					}
					out = append(out, p)
				}
				if st.allStarted() && allStartedAt < 0 {
					allStartedAt = w.Step
				}
				if cancelFn != nil && !cancelled && allStartedAt >= 0 && w.Step >= allStartedAt+ph.CancelAt {
					// concurrent dispatch (C20): in half of the phases the cancellation waits for a delivery into the
					// cancelling node and is started in the same step
					out = append(out, netsim.Proposal{Key: fmt.Sprintf("p%d:cancel:%d", pi, cancelNode), Mandatory: true, Weight: 20, JoinWith: ph.CancelAt%2 == 1, JoinNode: cancelNode, Fire: func() {
						cancelled = true
						w.Faults["cancel"]++
						cancelFn()
					}})
				}
				if adv != nil && st.allStarted() {
					out = append(out, adv.Proposals()...)
				}
				if ph.Outsider && ph.CancelAt%3 == 0 {
					// duplicated traffic: synchroniser messages of this phase are delivered again, up to three times each,
					// from their own sender (a peer that re-sends, a transport that re-delivers after a reconnect)
					for ; dupScanned < len(w.WireLog) && len(dups) < 60; dupScanned++ {
						m := w.WireLog[dupScanned]
						// (queries and confirmations only: a member's view is re-sent periodically and the latest one counts,
						// so an old view delivered after a newer one is a matter of link order, not of duplication)
						if m.Type == uint8(tss.MsgTypeSync) && m.Tag == "" && len(m.Data) > 0 && m.Data[0] != 1 && prng.Hash64(m.Data, []byte{byte(m.To)})%2 == 0 {
							for k := 0; k < 3; k++ {
								dups = append(dups, dupMsg{m, fmt.Sprintf("inj:dupsync:%d:%d", m.ID, k)})
							}
						}
					}
					n := 0
					for i := range dups {
						dm := dups[i]
						if dupFired[dm.key] {
							continue
						}
						out = append(out, netsim.Proposal{Key: dm.key, Weight: 0.5, Fire: func() {
							dupFired[dm.key] = true
							w.Faults["duplicate-sync-message"]++
							w.Inject(dm.m.From, dm.m.To, dm.m.Type, dm.m.Topic, dm.m.Data, "dup-sync")
						}})
						if n++; n >= 4 {
							break
						}
					}
				}
				return out
			}
			lim := netsim.RunLimits{MaxSteps: 60000, Horizon: deadline + 30*time.Second, FairAfterSteps: 3000, FairAfter: deadline / 2}
			v := w.Run(sched, lim, func() bool { return st.allDone(w) && quiet(w) })
			w.Propose = nil
			all = append(all, calls...)
			if v != nil {
				res.Violations = append(res.Violations, *v)
				break
			}
			if !st.allDone(w) {
				viol("no-return", fmt.Sprintf("phase %d (%s): a call did not return by its deadline: %s", pi, ph.Kind, callSummary(st.calls())))
				break
			}
			// verdicts of this phase
			priorFailure := residueSeen
			for _, c := range calls {
				if c.call == nil {
					continue
				}
				got := "ok"
				if c.call.Err != nil || c.call.Panic != "" {
					got = "err"
				}
				if c.expect != "any" && got != c.expect {
					what := "unexpected-failure"
					switch {
					case strings.HasPrefix(c.role, "overlap"):
						what = "overlap-admitted"
					case c.expect == "err":
						what = "unexpected-success"
					case ph.Kind == "sg-overlap" || ph.Kind == "kg-overlap":
						what = "overlap-disturbed-first"
					case ph.Kind == "sg-concurrent":
						what = "concurrent-interference"
					case priorFailure || pi > 0:
						what = "retry-failed"
					}
					viol(what, fmt.Sprintf("phase %d (%s, topics %v): %s on node %d expected %s, got %s; history so far: %s; this phase: %s", pi, ph.Kind, ph.Topics, c.call.Name, c.node, c.expect, got, historySummary(cfg.Phases[:pi+1]), callSummary(st.calls())))
					break
				}
			}
			// all successful signers of one session hold the same signature; different sessions differ
			sigs := map[string][]byte{}
			for _, c := range calls {
				if c.call != nil && c.call.Err == nil && strings.HasPrefix(c.call.Name, "Sign") {
					if prev, ok := sigs[c.topic]; ok && !bytes.Equal(prev, c.call.Out) {
						viol("session-output-differs", fmt.Sprintf("phase %d: signers of topic %s returned different signatures", pi, c.topic))
					}
					sigs[c.topic] = c.call.Out
				}
			}
			if ph.Kind == "kg-ok" && len(res.Violations) == 0 {
				// every party of one key generation derives its stored data from the same broadcast transcript
				var first []byte
				for _, c := range calls {
					var st scripted.Stored
					if c.call.Err == nil && json.Unmarshal(c.call.Out, &st) == nil {
						if first == nil {
							first = st.Transcript
						} else if !bytes.Equal(first, st.Transcript) {
							viol("session-output-differs", fmt.Sprintf("phase %d: parties of one key generation hold different transcripts; history so far: %s", pi, historySummary(cfg.Phases[:pi+1])))
						}
					}
				}
			}
			if ph.Kind == "kg-ok" && len(res.Violations) == 0 {
				for _, c := range calls {
					stored[c.node] = c.call.Out
					d.Parties[c.node].SetStoredData(c.call.Out)
				}
			}
			if ph.Kind != "sg-ok" && ph.Kind != "kg-ok" && ph.Kind != "sg-concurrent" && ph.Kind != "kg-overlap" {
				residueSeen = true
			}
		}
		phaseStart[len(cfg.Phases)] = w.Step + 1
		failedPhase := len(all)
		if len(all) > 0 {
			failedPhase = all[len(all)-1].phase
		}
		res.Violations = append(res.Violations, panicViolations(w, "C12/panic")...)
		if stuck := w.Stuck(); len(stuck) > 0 && len(res.Violations) == 0 {
			res.Violations = append(res.Violations, netsim.Violation{Invariant: "C12/handler-blocked", Class: "C12/handler-blocked/" + mode, Detail: fmt.Sprintf("HandleMessage did not return for %v although the system is quiescent: late or duplicated traffic of a session must have no effect, and a dispatcher that is held up serves no other session either; history: %s", stuck[0], historySummary(cfg.Phases))})
		}
		if len(res.Violations) == 0 {
			res.Violations = append(res.Violations, c12Handoffs(w, d, all, phaseStart, mode)...)
			failedPhase = len(cfg.Phases) - 1
		}
		// Silent mode keeps per-topic state in the message buffer beyond the session
		// (until its GC expiry). Every consequence of re-using a topic inside that
		// window is one finding; anything else keeps its own class.
		if cfg.Deploy.Silent && len(res.Violations) > 0 && failedPhase < len(cfg.Phases) {
			topicsOf := func(p C12Phase) []string {
				if strings.HasPrefix(p.Kind, "kg") {
					return []string{"DKG"}
				}
				return p.Topics
			}
			reused := false
			for _, tp := range topicsOf(cfg.Phases[failedPhase]) {
				for _, earlier := range cfg.Phases[:failedPhase] {
					for _, et := range topicsOf(earlier) {
						if et == tp {
							reused = true
						}
					}
				}
			}
			for _, v := range res.Violations {
				if strings.Contains(v.Class, "cross-session-handoff") {
					reused = true
				}
			}
			if reused {
				for i := range res.Violations {
					if !strings.HasPrefix(res.Violations[i].Class, "panic/") {
						res.Violations[i].Detail = "[" + res.Violations[i].Class + "] " + res.Violations[i].Detail
						res.Violations[i].Class = "C12/silent-topic-reuse"
					}
				}
			}
		}
		res.Nontrivial = residueSeen && len(cfg.Phases) >= 2
		w.Probes["phases"] = len(cfg.Phases)
		d.Teardown()
		fillResult(res, w, ss)
	})
	return res
}

type dupMsg struct {
	m   *netsim.Msg
	key string
}

func nodeOfKey(key string) uint16 {
	i := strings.LastIndex(key, ":")
	var n int
	fmt.Sscanf(key[i+1:], "%d", &n)
	return uint16(n)
}

func historySummary(ps []C12Phase) string {
	var s []string
	for _, p := range ps {
		s = append(s, fmt.Sprintf("%s%v", p.Kind, p.Topics))
	}
	return strings.Join(s, " -> ")
}

// c12Handoffs checks that every hand-off to a backend instance stems from an
// instance of the same session (same phase, same topic), from a participant,
// and happened while the call that owns the instance was still running.
func c12Handoffs(w *netsim.World, d *Deployment, calls []*c12Call, phaseStart []int, mode string) []netsim.Violation {
	ev := d.Rec.Snapshot()
	type inst struct {
		node  uint16
		label string
	}
	phaseOf := func(step int64) int {
		p := 0
		for i := range phaseStart {
			if int(step) >= phaseStart[i] {
				p = i
			}
		}
		return p
	}
	initStep := map[inst]int64{}
	emitter := map[string]inst{} // payload -> emitting instance
	for _, e := range ev {
		k := inst{e.Node, e.Instance}
		if e.Kind == "init" {
			initStep[k] = e.Step
		}
		if e.Kind == "send" {
			emitter[string(e.Payload)] = k
		}
	}
	// topic of an instance: the topic its payloads travelled on
	topicOf := map[inst]string{}
	for _, m := range w.WireLog {
		if m.Type != uint8(tss.MsgTypeMPC) || m.Tag != "" {
			continue
		}
		wr, ok := ParseMPC(m.Data)
		if !ok || wr.IsAck {
			continue
		}
		if k, ok := emitter[string(wr.Payload)]; ok && k.node == m.From {
			topicOf[k] = string(m.Topic)
		}
	}
	v := func(class, detail string) []netsim.Violation {
		return []netsim.Violation{{Invariant: "C12/" + class, Class: "C12/" + class + "/" + mode, Detail: detail}}
	}
	for _, e := range ev {
		if e.Kind != "onmsg" {
			continue
		}
		x := inst{e.Node, e.Instance}
		y, ok := emitter[string(e.Payload)]
		if !ok {
			return v("foreign-handoff", fmt.Sprintf("node %d instance %s was handed a payload that no backend emitted", e.Node, e.Instance))
		}
		px, py := phaseOf(initStep[x]), phaseOf(initStep[y])
		if px != py {
			return v("cross-session-handoff", fmt.Sprintf("node %d instance %s (phase %d) was handed a message of node %d instance %s (phase %d)", e.Node, e.Instance, px, y.node, y.label, py))
		}
		if tx, ok := topicOf[x]; ok {
			if ty, ok := topicOf[y]; ok && tx != ty {
				return v("cross-topic-handoff", fmt.Sprintf("node %d instance %s was handed a message that travelled on another topic (from node %d instance %s)", e.Node, e.Instance, y.node, y.label))
			}
		}
		// lifetime: the call of this node, phase and topic must not have returned earlier
		for _, c := range calls {
			if c.node != e.Node || c.phase != px || c.call == nil || strings.HasPrefix(c.role, "overlap") {
				continue
			}
			tx, known := topicOf[x]
			if known && c.topic != "DKG" && string(sha([]byte(c.topic))) != tx {
				continue
			}
			if c.call.Done && int(e.Step) > c.call.EndStep+1 {
				return v("handoff-after-return", fmt.Sprintf("node %d instance %s was handed a message at step %d, but %s returned at step %d", e.Node, e.Instance, e.Step, c.call.Name, c.call.EndStep))
			}
		}
	}
	_ = sort.Ints
	_ = scripted.HeaderLen
	return nil
}

func init() {
	register(&Check{ID: "C12", Run: runC12})
}
