package checks

import (
	"fmt"
	"sort"
	"strings"

	"verif/sim/netsim"
	"verif/sim/prng"
	"verif/sim/scripted"

	tss "github.com/IBM/TSS/types"
)

// Adversary is the "Byzantine NIC": the misbehaving participants run the real
// stack (so they synchronise like everybody else) but everything they transmit
// passes through Filter, and the adversary can fabricate further messages
// under the identities it controls (Byzantine participants, outsiders, unknown
// ids) — never under the identity of an honest node.
//
// Every decision is a pure function of (seed, content), so the set of
// injections that are possible at a quiescent point depends only on what is in
// the wire log, not on how the run got there (stable under minimisation).
type Adversary struct {
	W        *netsim.World
	Seed     uint64
	Byz      map[uint16]bool
	Honest   []uint16 // session participants that are honest
	Outsider []uint16 // identities the adversary may also use (non-participants, unknown ids)
	Topics   map[string]bool
	Kinds    map[string]bool // enabled fault kinds
	Budget   int             // max number of injections
	Rate     uint64          // 1/Rate of the possible recipes are candidates
	// Collude = {b1, b2}: two Byzantine participants mirror each other. b1 shows the honest parties of group 1
	// its broadcast A and those of group 2 the variant B; b2 withholds its own broadcasts and transmits, as its
	// own broadcast of the same round, B to group 1 and A to group 2; each of the two acknowledges the other's
	// broadcast towards every honest party with the digest that party was shown. Whatever the code confuses
	// about the two senders (identifier encodings, bookkeeping keyed by sender and round) turns the honest
	// parties' acknowledgements about one of them into vouchers for the other.
	Collude *[2]uint16

	scanned int
	pending []*recipe
	fired   map[string]bool
	nFired  int
}

type recipe struct {
	key    string
	kind   string
	fire   func()
	weight float64 // 0: default; recipes with a weight of their own are outside the budget
}

func (a *Adversary) on(kind string) bool { return a.Kinds[kind] }

func (a *Adversary) coin(mod uint64, parts ...string) uint64 {
	var bs [][]byte
	for _, p := range parts {
		bs = append(bs, []byte(p))
	}
	return (prng.Hash64(bs...) ^ a.Seed*0x9e3779b97f4a7c15) % mod
}

func injectedTag(t string) bool {
	return strings.HasPrefix(t, "byz-forge") || strings.HasPrefix(t, "byz-replay") || strings.HasPrefix(t, "outsider") || strings.HasPrefix(t, "byz-collude")
}

// group2 tells whether honest party v belongs to the second group of a colluding pair's split.
func (a *Adversary) group2(v uint16) bool {
	for i, h := range a.Honest {
		if h == v {
			return i%2 == 1
		}
	}
	return false
}

func alter(p []byte) []byte {
	q := append([]byte(nil), p...)
	if len(q) > scripted.HeaderLen {
		q[len(q)-1] ^= 0x5a
	} else {
		q = append(q, 0x5a)
	}
	return q
}

// Filter implements netsim.World.Filter for the messages of Byzantine nodes.
func (a *Adversary) Filter(m *netsim.Msg) []*netsim.Msg {
	if !a.Byz[m.From] || m.Type != uint8(tss.MsgTypeMPC) || !a.Topics[string(m.Topic)] {
		return []*netsim.Msg{m}
	}
	wr, ok := ParseMPC(m.Data)
	if !ok {
		return []*netsim.Msg{m}
	}
	id := fmt.Sprintf("%d>%d/%x", m.From, m.To, sha(m.Data)[:6])
	if a.Collude != nil {
		b1, b2 := a.Collude[0], a.Collude[1]
		if a.Byz[m.To] {
			return []*netsim.Msg{m}
		}
		if wr.IsAck {
			if wr.About == b1 || wr.About == b2 {
				// what the pair says about each other is scripted (scan), not what their honest stacks would say
				a.W.Faults["byz-withhold-ack"]++
				return nil
			}
			return []*netsim.Msg{m}
		}
		h, err := scripted.Decode(wr.Payload)
		if err != nil || !h.Bcast {
			return []*netsim.Msg{m}
		}
		if m.From == b2 {
			a.W.Faults["byz-withhold-payload"]++
			return nil
		}
		if a.group2(m.To) {
			a.W.Faults["byz-equivocate"]++
			c := *m
			c.Data = EncodePayload(alter(wr.Payload))
			c.Tag = "byz-equivocate"
			return []*netsim.Msg{&c}
		}
		return []*netsim.Msg{m}
	}
	if wr.IsAck {
		switch {
		case a.on("byz-withhold-selective") && a.coin(10, "dropack", id) == 0:
			a.W.Faults["byz-withhold-ack"]++
			return nil
		case a.on("byz-mutate") && a.coin(10, "mutack", id) == 0:
			a.W.Faults["byz-mutate-ack"]++
			c := *m
			c.Data = EncodeAck(wr.Round, wr.About, sha(append([]byte("x"), wr.Digest...)))
			c.Tag = "byz-mutate-ack"
			return []*netsim.Msg{&c}
		}
		return []*netsim.Msg{m}
	}
	h, err := scripted.Decode(wr.Payload)
	if err != nil {
		return []*netsim.Msg{m}
	}
	if h.Bcast && a.on("byz-equivocate") {
		// one decision per broadcast (round), one per destination
		if a.coin(2, "equiv", fmt.Sprint(m.From, h.Round, h.Seq)) == 0 && a.coin(2, "equivdst", fmt.Sprint(m.From, h.Round, m.To)) == 0 {
			a.W.Faults["byz-equivocate"]++
			c := *m
			c.Data = EncodePayload(alter(wr.Payload))
			c.Tag = "byz-equivocate"
			return []*netsim.Msg{&c}
		}
	}
	if a.on("byz-withhold-selective") && a.coin(12, "droppay", id) == 0 {
		a.W.Faults["byz-withhold-payload"]++
		return nil
	}
	if a.on("byz-replay") && a.coin(12, "duppay", id) == 0 {
		a.W.Faults["byz-duplicate-payload"]++
		c := *m
		c.Tag = "byz-dup"
		return []*netsim.Msg{m, &c}
	}
	return []*netsim.Msg{m}
}

func (a *Adversary) add(key, kind string, f func()) {
	if a.fired == nil {
		a.fired = map[string]bool{}
	}
	if a.fired[key] {
		return
	}
	for _, r := range a.pending {
		if r.key == key {
			return
		}
	}
	a.pending = append(a.pending, &recipe{key: key, kind: kind, fire: f})
}

// addW adds a recipe with a scheduling weight of its own, outside the injection budget.
func (a *Adversary) addW(key, kind string, weight float64, f func()) {
	n := len(a.pending)
	a.add(key, kind, f)
	if len(a.pending) > n {
		a.pending[n].weight = weight
	}
}

func (a *Adversary) inject(from, to uint16, topic, data []byte, kind string, head bool) {
	m := a.W.Inject(from, to, uint8(tss.MsgTypeMPC), topic, data, kind)
	if head {
		a.W.MoveToHead(m)
	}
	a.W.Faults[kind]++
}

// scan derives new injection recipes from the wire log entries it has not seen yet.
func (a *Adversary) scan() {
	log := a.W.WireLog
	var byz []uint16
	for b := range a.Byz {
		byz = append(byz, b)
	}
	sort.Slice(byz, func(i, j int) bool { return byz[i] < byz[j] })
	for ; a.scanned < len(log); a.scanned++ {
		m := log[a.scanned]
		if m.Type != uint8(tss.MsgTypeMPC) || !a.Topics[string(m.Topic)] || injectedTag(m.Tag) {
			continue
		}
		wr, ok := ParseMPC(m.Data)
		if !ok {
			continue
		}
		topic := m.Topic
		base := fmt.Sprintf("%x/%x", m.Topic[:2], sha(m.Data)[:5])
		if a.Collude != nil {
			b1, b2 := a.Collude[0], a.Collude[1]
			if wr.IsAck || m.From != b1 || a.Byz[m.To] {
				continue
			}
			h, err := scripted.Decode(wr.Payload)
			if err != nil || !h.Bcast {
				continue
			}
			v := m.To
			shown := append([]byte(nil), wr.Payload...)
			mirror := alter(shown)
			round := h.Round
			a.addW(fmt.Sprintf("inj:mirror:%d>%d:%s", b2, v, base), "byz-collude-mirror", 3, func() { a.inject(b2, v, topic, EncodePayload(mirror), "byz-collude-mirror", false) })
			a.addW(fmt.Sprintf("inj:ackpeer:%d>%d:%s", b2, v, base), "byz-collude-ack", 3, func() { a.inject(b2, v, topic, EncodeAck(round, b1, sha(shown)), "byz-collude-ack", false) })
			a.addW(fmt.Sprintf("inj:ackpeer:%d>%d:%s", b1, v, base), "byz-collude-ack", 3, func() { a.inject(b1, v, topic, EncodeAck(round, b2, sha(mirror)), "byz-collude-ack", false) })
			continue
		}
		if !wr.IsAck {
			h, err := scripted.Decode(wr.Payload)
			if err != nil {
				continue
			}
			for _, b := range byz {
				for _, v := range a.Honest {
					bs, vs := fmt.Sprint(b), fmt.Sprint(v)
					if a.Byz[m.From] && h.Bcast && m.To == v && m.From == b && a.on("byz-forge-ack") {
						// acknowledgement about its own broadcast, matching what this victim was shown
						for _, head := range []bool{false, true} {
							if a.coin(a.Rate, "ackself", base, bs, vs, fmt.Sprint(head)) < 3 {
								data := EncodeAck(h.Round, b, sha(wr.Payload))
								head := head
								a.add(fmt.Sprintf("inj:ackself:%d>%d:%s:%v", b, v, base, head), "byz-forge-ack-self", func() { a.inject(b, v, topic, data, "byz-forge-ack-self", head) })
							}
						}
					}
					if !a.Byz[m.From] && h.Bcast && a.on("byz-forge-ack") && m.From != v {
						// acknowledgement about an honest sender's broadcast: real digest, altered digest
						if a.coin(a.Rate, "ackother", base, bs, vs) == 0 {
							data := EncodeAck(h.Round, m.From, sha(wr.Payload))
							a.add(fmt.Sprintf("inj:ackother:%d>%d:%s", b, v, base), "byz-forge-ack-other", func() { a.inject(b, v, topic, data, "byz-forge-ack-other", false) })
						}
						if a.coin(a.Rate, "ackotherbad", base, bs, vs) == 0 {
							data := EncodeAck(h.Round, m.From, sha(alter(wr.Payload)))
							a.add(fmt.Sprintf("inj:ackotherbad:%d>%d:%s", b, v, base), "byz-forge-ack-conflict", func() { a.inject(b, v, topic, data, "byz-forge-ack-conflict", false) })
						}
						if a.coin(a.Rate, "ackfuture", base, bs, vs) == 0 && h.Round < 127 {
							data := EncodeAck(h.Round+1, m.From, sha([]byte("unseen"+base)))
							a.add(fmt.Sprintf("inj:ackfuture:%d>%d:%s", b, v, base), "byz-forge-ack-early", func() { a.inject(b, v, topic, data, "byz-forge-ack-early", true) })
						}
					}
					if a.Byz[m.From] && m.From == b && a.on("byz-replay") && a.coin(a.Rate, "resend", base, bs, vs) == 0 {
						// re-send own payload (to the original addressee or to somebody else)
						data := append([]byte(nil), m.Data...)
						a.add(fmt.Sprintf("inj:resend:%d>%d:%s", b, v, base), "byz-replay-payload", func() { a.inject(b, v, topic, data, "byz-replay-payload", false) })
					}
					if !a.Byz[m.From] && a.on("byz-replay") && a.coin(a.Rate*2, "steal", base, bs, vs) == 0 {
						// transmit somebody else's payload under the Byzantine identity
						data := append([]byte(nil), m.Data...)
						a.add(fmt.Sprintf("inj:steal:%d>%d:%s", b, v, base), "byz-replay-foreign", func() { a.inject(b, v, topic, data, "byz-replay-foreign", false) })
					}
				}
			}
			if a.on("outsider") {
				for _, o := range a.Outsider {
					for _, v := range a.Honest {
						if a.coin(a.Rate*2, "outpay", base, fmt.Sprint(o), fmt.Sprint(v)) == 0 {
							data := append([]byte(nil), m.Data...)
							o, v := o, v
							a.add(fmt.Sprintf("inj:outpay:%d>%d:%s", o, v, base), "outsider-payload", func() { a.inject(o, v, topic, data, "outsider-payload", false) })
						}
						if h.Bcast && a.Byz[m.From] && m.To == v {
							// a non-participant vouches, towards this victim, for exactly what a Byzantine sender showed it
							for _, head := range []bool{false, true} {
								if a.coin(a.Rate, "outackshown", base, fmt.Sprint(o), fmt.Sprint(v), fmt.Sprint(head)) < 2 {
									data := EncodeAck(h.Round, m.From, sha(wr.Payload))
									o, v, head := o, v, head
									a.add(fmt.Sprintf("inj:outackshown:%d>%d:%s:%v", o, v, base, head), "outsider-ack", func() { a.inject(o, v, topic, data, "outsider-ack", head) })
								}
							}
						}
						if h.Bcast && m.From != v && a.coin(a.Rate*2, "outack", base, fmt.Sprint(o), fmt.Sprint(v)) == 0 {
							data := EncodeAck(h.Round, m.From, sha(wr.Payload))
							o, v := o, v
							a.add(fmt.Sprintf("inj:outack:%d>%d:%s", o, v, base), "outsider-ack", func() { a.inject(o, v, topic, data, "outsider-ack", false) })
						}
					}
				}
			}
		} else if a.on("byz-replay") {
			for _, b := range byz {
				for _, v := range a.Honest {
					if wr.About != v && a.coin(a.Rate*2, "reack", base, fmt.Sprint(b), fmt.Sprint(v)) == 0 {
						// replay an acknowledgement seen on the wire under the Byzantine identity
						data := append([]byte(nil), m.Data...)
						b, v := b, v
						a.add(fmt.Sprintf("inj:reack:%d>%d:%s", b, v, base), "byz-replay-ack", func() { a.inject(b, v, topic, data, "byz-replay-ack", false) })
					}
				}
			}
		}
	}
}

// Proposals offers the pending injections to the scheduler.
func (a *Adversary) Proposals() []netsim.Proposal {
	a.scan()
	var out []netsim.Proposal
	for _, r := range a.pending {
		if a.fired[r.key] {
			continue
		}
		if r.weight == 0 && a.nFired >= a.Budget {
			continue
		}
		r := r
		wgt := 0.4
		if r.weight > 0 {
			wgt = r.weight
		}
		out = append(out, netsim.Proposal{Key: r.key, Weight: wgt, Fire: func() {
			a.fired[r.key] = true
			if r.weight == 0 {
				a.nFired++
			}
			r.fire()
		}})
		if len(out) >= 8 {
			break
		}
	}
	return out
}
