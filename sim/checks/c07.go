package checks

import (
	"context"
	"crypto/hmac"
	"crypto/sha256"
	"encoding/json"
	"fmt"
	"sort"
	"strings"
	"sync"
	"testing"
	"time"

	"verif/sim/netsim"
	"verif/sim/prng"

	discovery "github.com/IBM/TSS/disc"
	tss "github.com/IBM/TSS/types"
)

// C07 — membership synchronisation on disc.Member directly.

type C07Cfg struct {
	Universe   []uint16   `json:"universe"`
	Byz        []uint16   `json:"byz"`    // configured members controlled by the adversary
	Topics     []C07Topic `json:"topics"` // several topics run concurrently on the same Member instances
	Strategy   string     `json:"strategy"`
	DeadlineMs int        `json:"deadlineMs"`
	IntervalMs int        `json:"intervalMs"`
	Budget     int        `json:"budget"`
	// CancelOnReturn: every caller cancels its context as soon as its Synchronize call has returned (the usual
	// `ctx, cancel := context.WithTimeout(...); defer cancel()`): a member that is done must go on answering
	// the queries of slower members all the same
	CancelOnReturn bool `json:"cancelOnReturn,omitempty"`
}

type C07Topic struct {
	Name     string   `json:"name"`
	Invokers []uint16 `json:"invokers"` // honest members that call Synchronize on this topic
	Expected int      `json:"expected"`
}

func genC07(seed uint64, tier string) C07Cfg {
	r := prng.Derive(seed, "cfg")
	maxU := 6
	if tier == "thorough" {
		maxU = 8
	}
	nu := r.Range(3, maxU)
	seen := map[uint16]bool{}
	var uni []uint16
	for len(uni) < nu {
		var id uint16
		switch r.Intn(3) {
		case 0:
			id = uint16(1 + r.Intn(30))
		case 1:
			id = boundaryIDs[r.Intn(len(boundaryIDs))]
		default:
			id = uint16(r.Intn(65536))
		}
		if !seen[id] {
			seen[id] = true
			uni = append(uni, id)
		}
	}
	sort.Slice(uni, func(i, j int) bool { return uni[i] < uni[j] })
	c := C07Cfg{Universe: uni, Strategy: pickStr(r, netsim.Strategies), DeadlineMs: 5000 + r.Intn(5000), IntervalMs: 100 + r.Intn(300), Budget: r.Range(3, 25)}
	nb := 0
	if r.Bool(0.6) {
		nb = r.Range(1, max(1, nu-2))
		if nu-nb < 2 {
			nb = nu - 2
		}
	}
	perm := r.Perm(nu)
	isByz := map[uint16]bool{}
	for _, i := range perm[:nb] {
		c.Byz = append(c.Byz, uni[i])
		isByz[uni[i]] = true
	}
	sort.Slice(c.Byz, func(i, j int) bool { return c.Byz[i] < c.Byz[j] })
	var honest []uint16
	for _, u := range uni {
		if !isByz[u] {
			honest = append(honest, u)
		}
	}
	nt := r.Range(1, 3)
	for t := 0; t < nt; t++ {
		k := r.Range(2, len(honest)) // a "session" of a single member is outside the statement (2 <= t <= n everywhere)
		p := r.Perm(len(honest))
		var inv []uint16
		for _, i := range p[:k] {
			inv = append(inv, honest[i])
		}
		sort.Slice(inv, func(i, j int) bool { return inv[i] < inv[j] })
		exp := k
		switch {
		case nb > 0 && r.Bool(0.4):
			exp = k + r.Range(1, nb) // room for Byzantine members in the agreed list
		case r.Bool(0.15):
			exp = k + 1 // one member too few: nobody may complete
		case r.Bool(0.1) && k > 1:
			exp = k - 1 // one member too many
		}
		c.Topics = append(c.Topics, C07Topic{Name: fmt.Sprintf("topic-%d-%d", t, r.Intn(1000)), Invokers: inv, Expected: exp})
	}
	c.CancelOnReturn = prng.Derive(seed, "cancel-on-return").Bool(0.5)
	return c
}

// the harness' own reading of the synchroniser's wire format
func c07Tag(topic []byte, id uint16) []byte {
	h := hmac.New(sha256.New, topic)
	h.Write([]byte{byte(id), byte(id >> 8)})
	return h.Sum(nil)
}

func c07Encode(typ byte, tag []byte, view []uint16) []byte {
	b := append([]byte{typ}, tag...)
	for _, p := range view {
		b = append(b, byte(p), byte(p>>8))
	}
	return b
}

type c07Result struct {
	mu     sync.Mutex
	lists  [][]uint16
	called int
}

func runC07(t *testing.T, spec RunSpec) *RunResult {
	var cfg C07Cfg
	if spec.Cfg != nil {
		if err := json.Unmarshal(spec.Cfg, &cfg); err != nil {
			panic(err)
		}
	} else {
		cfg = genC07(spec.Seed, spec.Tier)
	}
	res := &RunResult{Property: "C07", Seed: spec.Seed, Cfg: mustJSON(cfg), Strategy: cfg.Strategy}
	hi := 0
	for _, u := range cfg.Universe {
		if u >= 256 {
			hi++
		}
	}
	res.ConfigKey = fmt.Sprintf("universe=%d byz=%d topics=%d ids>=256:%d", len(cfg.Universe), len(cfg.Byz), len(cfg.Topics), hi)
	bubble(t, func() {
		w := netsim.NewWorld(spec.Seed)
		trace(spec, res.Cfg, w)
		lg := NewCountLogger()
		isByz := map[uint16]bool{}
		for _, b := range cfg.Byz {
			isByz[b] = true
		}
		members := map[uint16]*discovery.Member{}
		for _, id := range cfg.Universe {
			id := id
			if isByz[id] {
				w.AddNode(id, netsim.EndpointFunc(func(*tss.IncMessage) {})) // the adversary reads the wire log instead
				continue
			}
			send := w.SendFunc(id)
			var others []uint16
			for _, o := range cfg.Universe {
				if o != id {
					others = append(others, o)
				}
			}
			m := &discovery.Member{Membership: append([]uint16(nil), cfg.Universe...), Logger: lg, ID: id,
				Broadcast: func(msg []byte) { send(uint8(tss.MsgTypeSync), nil, msg, others...) },
				Send:      func(msg []byte, to uint16) { send(uint8(tss.MsgTypeSync), nil, msg, to) },
			}
			members[id] = m
			w.AddNode(id, netsim.EndpointFunc(func(inc *tss.IncMessage) { m.HandleMessage(inc.Source, inc.Data) }))
		}
		sched, ss := scheduler(spec, cfg.Strategy)
		deadline := time.Duration(cfg.DeadlineMs)*time.Millisecond + 17*time.Microsecond
		interval := time.Duration(cfg.IntervalMs)*time.Millisecond + 3*time.Microsecond
		type key struct {
			topic int
			node  uint16
		}
		results := map[key]*c07Result{}
		calls := map[key]*netsim.Call{}
		st := &starter{}
		var cancels []context.CancelFunc
		for ti, tp := range cfg.Topics {
			for _, id := range tp.Invokers {
				ti, tp, id := ti, tp, id
				k := key{ti, id}
				results[k] = &c07Result{}
				st.add(fmt.Sprintf("start:sync:%d:%d", ti, id), id, 2, func() *netsim.Call {
					ctx, cancel := context.WithTimeout(context.Background(), deadline)
					cancels = append(cancels, cancel)
					rr := results[k]
					c := w.StartCall(fmt.Sprintf("Synchronize:%s", tp.Name), id, func() ([]byte, error) {
						err := members[id].Synchronize(ctx, func(l []uint16) {
							rr.mu.Lock()
							rr.called++
							rr.lists = append(rr.lists, append([]uint16(nil), l...))
							rr.mu.Unlock()
						}, []byte(tp.Name), tp.Expected, interval)
						if cfg.CancelOnReturn {
							cancel()
						}
						return nil, err
					})
					calls[k] = c
					return c
				})
			}
		}
		// Byzantine members: fabricate synchroniser messages from what is on the wire
		injected := 0
		advR := func(parts ...string) uint64 {
			var bs [][]byte
			for _, p := range parts {
				bs = append(bs, []byte(p))
			}
			return prng.Hash64(bs...) ^ spec.Seed
		}
		mkView := func(kind int, tp C07Topic, b uint16, salt uint64) []uint16 {
			base := append([]uint16(nil), tp.Invokers...)
			switch kind {
			case 0: // plausible: invokers + myself
				base = append(base, b)
			case 1: // superset with unknown ids
				base = append(base, b, uint16(salt), uint16(salt>>16))
			case 2: // subset
				if len(base) > 1 {
					base = base[:len(base)-1]
				}
				base = append(base, b)
			case 3: // duplicates, unsorted
				base = append(base, b, b)
				if len(base) > 1 {
					base[0], base[len(base)-1] = base[len(base)-1], base[0]
				}
				return base
			case 4: // everything configured
				base = append([]uint16(nil), cfg.Universe...)
			case 5: // empty
				return nil
			case 6, 7:
				// a list of exactly the expected length made only of identifiers the victim will have in its own
				// view (the invokers and myself), with a repetition in place of one of them. The list depends on
				// (b, topic, kind) only, so that b's announcements, queries and confirmations carry the same one.
				base = append(base, b)
				sort.Slice(base, func(i, j int) bool { return base[i] < base[j] })
				h := prng.Hash64([]byte(tp.Name), []byte{byte(b), byte(b >> 8), byte(kind)})
				if len(base) >= 2 {
					d := int(h % uint64(len(base)))
					u := (d + 1 + int((h>>8)%uint64(len(base)-1))) % len(base)
					base[d] = base[u]
				}
				for len(base) > tp.Expected && len(base) > 0 {
					base = base[:len(base)-1]
				}
				for len(base) < tp.Expected && len(base) > 0 {
					base = append(base, base[int(h>>16)%len(base)])
				}
				if kind == 7 {
					return base // in the order it came out (possibly unsorted)
				}
			}
			sort.Slice(base, func(i, j int) bool { return base[i] < base[j] })
			return base
		}
		advProposals := func() []netsim.Proposal {
			if len(cfg.Byz) == 0 || injected >= cfg.Budget || !st.allStarted() {
				return nil
			}
			var out []netsim.Proposal
			// candidates are a pure function of (seed, number of injections so far)
			for c := 0; c < 4; c++ {
				x := advR("c07", fmt.Sprint(injected), fmt.Sprint(c))
				b := cfg.Byz[int(x%uint64(len(cfg.Byz)))]
				ti := int((x >> 8) % uint64(len(cfg.Topics)))
				tp := cfg.Topics[ti]
				if len(tp.Invokers) == 0 {
					continue
				}
				victim := tp.Invokers[int((x>>16)%uint64(len(tp.Invokers)))]
				typ := byte(1 + (x>>24)%3)
				kind := int((x >> 28) % 8)
				claimed := b
				tagKind := "own"
				if (x>>32)%5 == 0 {
					// answer under another member's tag
					claimed = cfg.Universe[int((x>>36)%uint64(len(cfg.Universe)))]
					tagKind = "foreign"
				}
				view := mkView(kind, tp, b, x>>40)
				data := c07Encode(typ, c07Tag([]byte(tp.Name), claimed), view)
				kname := fmt.Sprintf("inj:sync:%d>%d:t%d:type%d:view%d:%s:%d", b, victim, ti, typ, kind, tagKind, injected)
				out = append(out, netsim.Proposal{Key: kname, Weight: 0.5, Fire: func() {
					injected++
					w.Faults[fmt.Sprintf("byz-sync-type%d-%s", typ, tagKind)]++
					w.Faults[fmt.Sprintf("byz-view-kind%d", kind)]++
					w.Inject(b, victim, uint8(tss.MsgTypeSync), nil, data, "byz-sync")
				}})
			}
			return out
		}
		// impersonation: a Byzantine member b picks a victim v and a list L of the expected size that contains v and
		// b, and plays every other member of L towards v, over its own link: announcements and confirmations of the
		// view L under the tags of those members (any member can compute every member's tag of a topic). Two victims
		// get independent lists.
		type impMsg struct {
			key  string
			fire func()
		}
		var imps []impMsg
		impFired := map[string]bool{}
		if x0 := advR("c07-imp"); len(cfg.Byz) > 0 && x0%3 == 0 {
			for vi := 0; vi < 2; vi++ {
				x := advR("c07-imp-victim", fmt.Sprint(vi))
				b := cfg.Byz[int(x%uint64(len(cfg.Byz)))]
				ti := int((x >> 8) % uint64(len(cfg.Topics)))
				tp := cfg.Topics[ti]
				if len(tp.Invokers) == 0 || tp.Expected > len(cfg.Universe) || tp.Expected < 2 {
					continue
				}
				v := tp.Invokers[(int((x>>16)%uint64(len(tp.Invokers)))+vi)%len(tp.Invokers)]
				in := map[uint16]bool{v: true, b: true}
				L := []uint16{v, b}
				rr := prng.Derive(spec.Seed, fmt.Sprintf("c07-imp-list/%d", vi))
				for _, i := range rr.Perm(len(cfg.Universe)) {
					if len(L) >= tp.Expected {
						break
					}
					if u := cfg.Universe[i]; !in[u] {
						in[u] = true
						L = append(L, u)
					}
				}
				sort.Slice(L, func(i, j int) bool { return L[i] < L[j] })
				for _, xid := range L {
					if xid == v {
						continue
					}
					for _, typ := range []byte{1, 3} { // announcement, confirmation
						xid, typ, b, v, ti := xid, typ, b, v, ti
						data := c07Encode(typ, c07Tag([]byte(tp.Name), xid), L)
						k := fmt.Sprintf("inj:imp:%d>%d:t%d:as%d:type%d", b, v, ti, xid, typ)
						imps = append(imps, impMsg{key: k, fire: func() {
							tk := "foreign"
							if xid == b {
								tk = "own"
							}
							w.Faults["byz-sync-impersonate-"+tk]++
							w.Inject(b, v, uint8(tss.MsgTypeSync), nil, data, "byz-sync")
						}})
					}
				}
			}
		}
		impProposals := func() []netsim.Proposal {
			var out []netsim.Proposal
			for _, im := range imps {
				if impFired[im.key] {
					continue
				}
				// offered once the victim has invoked the synchronisation (earlier messages are dropped unseen)
				var vv uint16
				var tt int
				fmt.Sscanf(im.key[strings.Index(im.key, ">")+1:], "%d:t%d", &vv, &tt)
				if calls[key{tt, vv}] == nil {
					continue
				}
				im := im
				out = append(out, netsim.Proposal{Key: im.key, Weight: 2, Fire: func() {
					impFired[im.key] = true
					im.fire()
				}})
				if len(out) >= 6 {
					break
				}
			}
			return out
		}
		w.Propose = func() []netsim.Proposal {
			return append(append(st.proposals(), advProposals()...), impProposals()...)
		}
		lim := netsim.RunLimits{MaxSteps: 80000, Horizon: deadline + 20*time.Second, FairAfterSteps: 5000, FairAfter: deadline / 2}
		v := w.Run(sched, lim, func() bool { return st.allDone(w) && quiet(w) })
		if v != nil {
			res.Violations = append(res.Violations, *v)
		}
		res.Violations = append(res.Violations, panicViolations(w, "C07/panic")...)
		if stuck := w.Stuck(); len(stuck) > 0 && len(res.Violations) == 0 {
			// a message handler that never returns holds up the connection it serves (and a dispatcher that serves
			// several): the member no longer answers the queries of slower members
			res.Violations = append(res.Violations, netsim.Violation{Invariant: "C07/handler-blocked", Class: "C07/handler-blocked", Detail: fmt.Sprintf("HandleMessage did not return for %v although the system is quiescent", stuck[0])})
		}
		viol := func(class, detail string) {
			res.Violations = append(res.Violations, netsim.Violation{Invariant: "C07/" + class, Class: "C07/" + class, Detail: detail})
		}
		completions := 0
		if len(res.Violations) == 0 {
			for ti, tp := range cfg.Topics {
				announced := map[uint16]bool{}
				for _, id := range tp.Invokers {
					announced[id] = true
				}
				for _, b := range cfg.Byz {
					announced[b] = true
				}
				got := map[uint16][]uint16{}
				for _, id := range tp.Invokers {
					k := key{ti, id}
					c, rr := calls[k], results[k]
					if c == nil || !w.CallDone(c) {
						viol("no-return", fmt.Sprintf("Synchronize on topic %s at member %d did not return by its deadline", tp.Name, id))
						continue
					}
					if c.Err == nil && rr.called != 1 {
						viol("continuation-count", fmt.Sprintf("member %d topic %s: Synchronize returned nil but the continuation ran %d times", id, tp.Name, rr.called))
					}
					if c.Err != nil && rr.called != 0 {
						viol("continuation-on-error", fmt.Sprintf("member %d topic %s: Synchronize returned %v but the continuation ran %d times", id, tp.Name, c.Err, rr.called))
					}
					if rr.called == 0 {
						continue
					}
					completions++
					l := rr.lists[0]
					got[id] = l
					self := false
					for i, x := range l {
						if i > 0 && l[i-1] >= x {
							viol("list-invalid", fmt.Sprintf("member %d topic %s: list %v is not sorted and duplicate-free", id, tp.Name, l))
						}
						if x == id {
							self = true
						}
						if !announced[x] {
							viol("list-invalid", fmt.Sprintf("member %d topic %s: list %v contains %d, which is not a configured member that announced itself on the topic", id, tp.Name, l, x))
						}
					}
					if !self {
						viol("list-invalid", fmt.Sprintf("member %d topic %s: list %v does not contain the member itself", id, tp.Name, l))
					}
					if len(l) != tp.Expected {
						viol("list-invalid", fmt.Sprintf("member %d topic %s: list %v has %d entries, expected %d", id, tp.Name, l, len(l), tp.Expected))
					}
				}
				for a, la := range got {
					for _, x := range la {
						if lb, ok := got[x]; ok && fmt.Sprint(la) != fmt.Sprint(lb) {
							viol("agreement", fmt.Sprintf("topic %s: member %d completed with %v, member %d (which is in that list) completed with %v", tp.Name, a, la, x, lb))
						}
					}
				}
				// liveness only in the fault-free configuration
				if len(cfg.Byz) == 0 && tp.Expected == len(tp.Invokers) {
					for _, id := range tp.Invokers {
						if c := calls[key{ti, id}]; c != nil && c.Done && c.Err != nil {
							viol("liveness", fmt.Sprintf("topic %s: exactly %d honest members invoked, all messages were delivered, but member %d returned %v", tp.Name, tp.Expected, id, c.Err))
						}
					}
				}
				if len(cfg.Byz) == 0 && tp.Expected > len(tp.Invokers) {
					for _, id := range tp.Invokers {
						if c := calls[key{ti, id}]; c != nil && c.Done && c.Err == nil {
							viol("spurious-completion", fmt.Sprintf("topic %s: only %d members invoked but member %d completed with %d expected", tp.Name, len(tp.Invokers), id, tp.Expected))
						}
					}
				}
			}
		}
		w.Probes["completions"] = completions
		res.Nontrivial = completions > 0 && (injected > 0 || len(cfg.Topics) > 1 || hi > 0)
		for _, c := range cancels {
			c()
		}
		time.Sleep(time.Second)
		fillResult(res, w, ss)
	})
	return res
}

func init() {
	register(&Check{ID: "C07", Run: runC07})
}
