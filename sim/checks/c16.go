//go:build verif_connsim

package checks

import (
	"bytes"
	"crypto"
	"crypto/ecdsa"
	"crypto/ed25519"
	"crypto/elliptic"
	"crypto/rand"
	"crypto/rsa"
	"crypto/sha256"
	"crypto/x509"
	"crypto/x509/pkix"
	"encoding/json"
	"encoding/pem"
	"fmt"
	"math/big"
	"strings"
	"sync/atomic"
	"testing"
	"time"

	"verif/sim/netsim"
	"verif/sim/prng"

	comm "github.com/IBM/TSS/net"
	"github.com/IBM/TSS/testutil/tlsgen"
)

// C16 — the transport attributes traffic only to peers that proved their registered identity.

type C16Attack struct {
	Variant string `json:"variant"`
	Victim  int    `json:"victim"`  // the party the adversary connects to
	Claimed int    `json:"claimed"` // the registered node whose identity the handshake is derived from
	Cut     int    `json:"cut"`     // truncation point / parameter
	At      int    `json:"at"`
}

type C16Cfg struct {
	N       int         `json:"n"`
	Domain  string      `json:"domain"`
	Attacks []C16Attack `json:"attacks"`
	Honest  int         `json:"honest"` // honest messages per ordered pair
	// HonestSize pads the honest messages to this many bytes (0: a few bytes). What a party received is compared
	// with what was sent at the END of the run, byte for byte: nothing another connection does afterwards may
	// change a message that was handed over.
	HonestSize int `json:"honestSize,omitempty"`
	// Hold: before anything else, this many connections are opened to the victim of the attacks and kept open
	// without a single byte being sent (clients that connect and stall): however the node rations its handshake
	// work, what it attributes stays bound to the connection that proved it
	Hold int `json:"hold,omitempty"`
}

// c16HonestPayload is the m-th honest message from i to j.
func c16HonestPayload(i, j, m, size int) []byte {
	b := []byte(fmt.Sprintf("honest/%d/%d/%d/", i, j, m))
	for len(b) < size {
		b = append(b, byte('a'+(i*7+j*3+m+len(b)%5)%26))
	}
	return b
}

var c16Variants = []string{
	"valid", "valid-old-timestamp",
	"binding-flipped", "binding-empty", "binding-of-other-connection", "replayed-from-other-connection",
	"identity-of-other-node", "identity-unregistered", "identity-empty", "identity-leading-junk", "identity-trailing-junk",
	"signature-by-other-node", "signature-by-unregistered-key", "signature-over-other-binding", "signature-over-other-domain", "signature-missing", "signature-garbage",
	"domain-altered-after-signing", "domain-other-signed",
	"key-rsa", "key-ed25519", "key-p384",
	"registered-rsa-garbage-signature", "registered-rsa-own-signature", "registered-ed25519-garbage-signature", "registered-ed25519-own-signature",
	"truncated", "length-prefix-short", "length-prefix-long", "not-asn1", "trailing-bytes", "not-asn1-large", "domain-t61-invalid-utf8",
}

func genC16(seed uint64, index int, tier string) C16Cfg {
	r := prng.Derive(seed, "cfg")
	c := C16Cfg{N: 3, Honest: r.Range(1, 3)}
	if r.Bool(0.3) {
		c.N = 4
	}
	if r.Bool(0.4) {
		c.Domain = fmt.Sprintf("dom-%d", r.Intn(5))
	}
	if rs := prng.Derive(seed, "honest-size"); rs.Bool(0.4) {
		c.HonestSize = []int{4096, 8192, 30000}[rs.Intn(3)]
	}
	hold := 0
	if rh := prng.Derive(seed, "hold"); rh.Bool(0.12) {
		hold = rh.Range(20, 45)
	}
	na := r.Range(2, 6)
	for k := 0; k < na; k++ {
		a := C16Attack{Victim: 1 + r.Intn(c.N), Cut: r.Intn(400), At: r.Intn(120)}
		a.Claimed = 1 + r.Intn(c.N)
		for a.Claimed == a.Victim {
			a.Claimed = 1 + r.Intn(c.N)
		}
		// the catalogue is walked by the run index so that every variant is certainly exercised
		a.Variant = c16Variants[(index*7+k*3+r.Intn(2))%len(c16Variants)]
		c.Attacks = append(c.Attacks, a)
	}
	if hold > 0 {
		c.Hold = hold
		for i := range c.Attacks {
			c.Attacks[i].Victim = c.Attacks[0].Victim
			for c.Attacks[i].Claimed == c.Attacks[i].Victim {
				c.Attacks[i].Claimed = 1 + (c.Attacks[i].Claimed % c.N)
			}
		}
	}
	return c
}

func selfSigned(pub, priv interface{}) []byte {
	tmpl := &x509.Certificate{SerialNumber: big.NewInt(7), Subject: pkix.Name{CommonName: "adversary"}, NotBefore: time.Now().Add(-time.Hour), NotAfter: time.Now().Add(24 * time.Hour)}
	der, err := x509.CreateCertificate(rand.Reader, tmpl, tmpl, pub, priv)
	if err != nil {
		panic(err)
	}
	return pem.EncodeToMemory(&pem.Block{Type: "CERTIFICATE", Bytes: der})
}

// c16Model is the reference authentication decision, written from the property's statement.
func c16Model(hsBytes []byte, connBinding []byte, registered map[string]map[int][]byte) (ok bool, node int, domain string) {
	var h comm.Handshake
	if err := decodeHandshake(hsBytes, &h); err != nil {
		return false, 0, ""
	}
	if !bytes.Equal(h.TLSBinding, connBinding) || len(connBinding) == 0 {
		return false, 0, ""
	}
	for id, pemBytes := range registered[h.Domain] {
		if !bytes.Equal(pemBytes, h.Identity) {
			continue
		}
		bl, _ := pem.Decode(pemBytes)
		cert, err := x509.ParseCertificate(bl.Bytes)
		if err != nil {
			return false, 0, ""
		}
		pk, isECDSA := cert.PublicKey.(*ecdsa.PublicKey)
		if !isECDSA {
			return false, 0, ""
		}
		sig := h.Signature
		h.Signature = nil
		d := sha256.Sum256(h.Bytes())
		if ecdsa.VerifyASN1(pk, d[:], sig) {
			return true, id, h.Domain
		}
		return false, 0, ""
	}
	return false, 0, ""
}

func runC16(t *testing.T, spec RunSpec) *RunResult {
	var cfg C16Cfg
	if spec.Cfg != nil {
		if err := json.Unmarshal(spec.Cfg, &cfg); err != nil {
			panic(err)
		}
	} else {
		cfg = genC16(spec.Seed, spec.Index, spec.Tier)
	}
	res := &RunResult{Property: "C16", Seed: spec.Seed, Cfg: mustJSON(cfg), Strategy: "uniform"}
	var vs []string
	for _, a := range cfg.Attacks {
		vs = append(vs, a.Variant)
	}
	res.ConfigKey = fmt.Sprintf("n=%d domain=%v attacks=%v", cfg.N, cfg.Domain != "", vs)
	bubble(t, func() {
		// two further nodes are registered with identities of unsupported key types (nobody runs them): a peer
		// presenting such an identity can never give the proof the statement asks for
		var rsaKey *rsa.PrivateKey
		var edPriv ed25519.PrivateKey
		extra := map[int][]byte{}
		needsForeign := false
		for _, a := range cfg.Attacks {
			if strings.HasPrefix(a.Variant, "registered-") {
				needsForeign = true
			}
		}
		if needsForeign {
			rsaKey, _ = rsa.GenerateKey(rand.Reader, 2048)
			extra[90] = selfSigned(&rsaKey.PublicKey, rsaKey)
			var edPub ed25519.PublicKey
			edPub, edPriv, _ = ed25519.GenerateKey(rand.Reader)
			extra[91] = selfSigned(edPub, edPriv)
		}
		cw := newConnWorld(spec.Seed, cfg.N, cfg.Domain, extra)
		w := cw.w
		trace(spec, res.Cfg, w)
		sched, ss := scheduler(spec, "uniform")
		viol := func(class, detail string) {
			if len(res.Violations) < 3 {
				res.Violations = append(res.Violations, netsim.Violation{Invariant: "C16/" + class, Class: "C16/" + class, Detail: detail})
			}
		}
		registered := map[string]map[int][]byte{cfg.Domain: {}}
		for _, id := range cw.ids {
			registered[cfg.Domain][id] = cw.parties[id].ident.Cert
		}
		for id, pemBytes := range extra {
			registered[cfg.Domain][id] = pemBytes
		}
		unregistered, err := cw.ca.NewClientCertKeyPair() // a certificate of the same CA that nobody registered
		if err != nil {
			panic(err)
		}
		markerTopic := sha([]byte("c16-marker"))
		type attackState struct {
			started, done bool
			expectOK      bool
			expectNode    int
			expectDomain  string
			note          string
		}
		states := make([]*attackState, len(cfg.Attacks))
		runAttack := func(k int, a C16Attack, st *attackState) {
			defer func() { st.done = true }()
			rc := cw.dialRaw(a.Victim, 2000+10*k)
			if rc.err != nil {
				st.note = "dial: " + rc.err.Error()
				return
			}
			claimed := cw.parties[a.Claimed].ident
			other := cw.parties[1+(a.Claimed%cfg.N)].ident
			if 1+(a.Claimed%cfg.N) == a.Claimed {
				other = unregistered
			}
			binding := rc.binding()
			base := comm.Handshake{Domain: cfg.Domain, TLSBinding: binding, Identity: claimed.Cert, Timestamp: time.Now().Unix()}
			h := signHandshake(claimed, base)
			raw := []byte(nil)
			resign := func(id *tlsgen.CertKeyPair, x comm.Handshake) comm.Handshake { return signHandshake(id, x) }
			switch a.Variant {
			case "valid":
			case "valid-old-timestamp":
				base.Timestamp -= 3600
				h = resign(claimed, base)
			case "binding-flipped":
				h.TLSBinding = append([]byte(nil), binding...)
				h.TLSBinding[a.Cut%len(binding)] ^= 1
			case "binding-empty":
				base.TLSBinding = nil
				h = resign(claimed, base)
			case "binding-of-other-connection", "replayed-from-other-connection":
				// a genuine handshake for another connection (to the same server), presented on this one
				rc2 := cw.dialRaw(a.Victim, 2001+10*k)
				if rc2.err != nil {
					st.note = "dial2: " + rc2.err.Error()
					return
				}
				base.TLSBinding = rc2.binding()
				h = resign(claimed, base)
			case "identity-of-other-node":
				h.Identity = other.Cert // signature still by the claimed node's key
			case "identity-unregistered":
				base.Identity = unregistered.Cert
				h = resign(unregistered, base)
			case "identity-empty":
				h.Identity = nil
			case "identity-leading-junk":
				base.Identity = append([]byte("junk junk\n"), claimed.Cert...)
				h = resign(claimed, base)
			case "identity-trailing-junk":
				base.Identity = append(append([]byte(nil), claimed.Cert...), []byte("\ntrailing")...)
				h = resign(claimed, base)
			case "signature-by-other-node":
				h = resign(other, base)
			case "signature-by-unregistered-key":
				h = resign(unregistered, base)
			case "signature-over-other-binding":
				b2 := base
				b2.TLSBinding = sha(binding)
				h = resign(claimed, b2)
				h.TLSBinding = binding
			case "signature-over-other-domain":
				b2 := base
				b2.Domain = cfg.Domain + "-x"
				h = resign(claimed, b2)
				h.Domain = cfg.Domain
			case "signature-missing":
				h.Signature = nil
			case "signature-garbage":
				h.Signature = prng.Derive(spec.Seed, "sig").Bytes(70)
			case "domain-altered-after-signing":
				h.Domain = cfg.Domain + "-y"
			case "domain-other-signed":
				base.Domain = cfg.Domain + "-z"
				h = resign(claimed, base)
			case "key-rsa":
				key, _ := rsa.GenerateKey(rand.Reader, 2048)
				base.Identity = selfSigned(&key.PublicKey, key)
				h = base
				h.Signature = prng.Derive(spec.Seed, "rsasig").Bytes(256)
			case "key-ed25519":
				pub, priv, _ := ed25519.GenerateKey(rand.Reader)
				base.Identity = selfSigned(pub, priv)
				h = base
				h.Signature = ed25519.Sign(priv, base.Bytes())
			case "key-p384":
				key, _ := ecdsa.GenerateKey(elliptic.P384(), rand.Reader)
				base.Identity = selfSigned(&key.PublicKey, key)
				d := sha256.Sum256(base.Bytes())
				sig, _ := ecdsa.SignASN1(rand.Reader, key, d[:])
				h = base
				h.Signature = sig
			case "registered-rsa-garbage-signature":
				base.Identity = extra[90]
				h = base
				h.Signature = prng.Derive(spec.Seed, "rsagarbage").Bytes(64)
			case "registered-rsa-own-signature":
				base.Identity = extra[90]
				h = base
				d := sha256.Sum256(base.Bytes())
				h.Signature, _ = rsa.SignPKCS1v15(rand.Reader, rsaKey, crypto.SHA256, d[:])
			case "registered-ed25519-garbage-signature":
				base.Identity = extra[91]
				h = base
				h.Signature = prng.Derive(spec.Seed, "edgarbage").Bytes(64)
			case "registered-ed25519-own-signature":
				base.Identity = extra[91]
				h = base
				h.Signature = ed25519.Sign(edPriv, base.Bytes())
			case "truncated":
				b := h.Bytes()
				raw = handshakeFrame(b[:a.Cut%len(b)])
			case "length-prefix-short":
				b := h.Bytes()
				n := a.Cut % len(b)
				raw = append([]byte{byte(n), byte(n >> 8)}, b...)
			case "length-prefix-long":
				b := h.Bytes()
				n := len(b) + 1 + a.Cut%50
				raw = append([]byte{byte(n), byte(n >> 8)}, b...)
			case "not-asn1":
				raw = handshakeFrame(prng.Derive(spec.Seed, "noise").Bytes(100 + a.Cut))
			case "trailing-bytes":
				raw = handshakeFrame(append(h.Bytes(), 1, 2, 3))
			case "domain-t61-invalid-utf8":
				// a handshake that parses but cannot be re-encoded: the domain as a T61String (which ASN.1 decoders
				// accept without looking at the bytes) that is not valid UTF-8
				hh := h
				hh.Domain = "xy"
				b := hh.Bytes()
				off := 2
				if b[1]&0x80 != 0 {
					off = 2 + int(b[1]&0x7f)
				}
				if off+3 < len(b) && b[off+1] == 2 {
					b[off], b[off+2], b[off+3] = 0x14, 0xff, 0xfe
				}
				raw = handshakeFrame(b)
			case "not-asn1-large":
				raw = handshakeFrame(bytes.Repeat([]byte{'Z'}, 4096+(a.Cut*137)%56000))
			}
			var sent []byte
			if raw == nil {
				sent = h.Bytes()
				raw = handshakeFrame(sent)
			} else if len(raw) >= 2 {
				n := int(raw[0]) | int(raw[1])<<8
				if n <= len(raw)-2 {
					sent = raw[2 : 2+n]
				}
			}
			if sent != nil {
				st.expectOK, st.expectNode, st.expectDomain = c16Model(sent, binding, registered)
			}
			marker := []byte(fmt.Sprintf("attack-%d", k))
			// the handshake and the marker in pieces: short reads at the framing level too
			cut := 1 + a.Cut%len(raw)
			rc.conn.Write(raw[:cut])
			rc.conn.Write(raw[cut:])
			rc.conn.Write(frame(2, markerTopic, marker, len(marker)))
		}
		var honestStarted bool
		honestDone := 0
		honestTotal := 0
		holdStarted := false
		var heldConns atomic.Int64
		w.Propose = func() []netsim.Proposal {
			var ps []netsim.Proposal
			if cfg.Hold > 0 && !holdStarted {
				return []netsim.Proposal{{Key: "hold", Mandatory: true, Weight: 50, Fire: func() {
					holdStarted = true
					w.Faults["stalled-client-connections"] += cfg.Hold
					for i := 0; i < cfg.Hold; i++ {
						i := i
						go func() {
							if _, err := cw.net.Dial("tcp", fmt.Sprintf("p%d.sim:%d", cfg.Attacks[0].Victim, 3000+i)); err == nil {
								heldConns.Add(1)
							}
						}()
					}
				}}}
			}
			if !honestStarted {
				ps = append(ps, netsim.Proposal{Key: "start:honest", Mandatory: true, Weight: 3, Fire: func() {
					honestStarted = true
					for _, i := range cw.ids {
						for _, j := range cw.ids {
							if i == j {
								continue
							}
							i, j := i, j
							honestTotal += cfg.Honest
							go func() {
								for m := 0; m < cfg.Honest; m++ {
									cw.parties[i].remotes.Send(2, sha([]byte("honest")), c16HonestPayload(i, j, m, cfg.HonestSize), uint16(j))
								}
								honestDone++
							}()
						}
					}
				}})
			}
			for k, a := range cfg.Attacks {
				if states[k] == nil {
					states[k] = &attackState{}
				}
				st := states[k]
				if !st.started && w.Step >= a.At {
					k, a := k, a
					ps = append(ps, netsim.Proposal{Key: fmt.Sprintf("attack:%d", k), Mandatory: true, Weight: 1.5, Fire: func() {
						st.started = true
						w.Faults["handshake-"+a.Variant]++
						go runAttack(k, a, st)
					}})
				}
			}
			return append(ps, cw.releaseProposals()...)
		}
		allDone := func() bool {
			if !honestStarted {
				return false
			}
			for _, st := range states {
				if st == nil || !st.done {
					return false
				}
			}
			got := 0
			for _, id := range cw.ids {
				for _, r := range cw.received(id) {
					if bytes.HasPrefix(r.msg.Data, []byte("honest/")) {
						got++
					}
				}
			}
			return got >= honestTotal && cw.net.PendingBytes() == 0
		}
		lim := netsim.RunLimits{MaxSteps: 200000, Horizon: 40 * time.Second, FairAfterSteps: 100000}
		w.Run(sched, lim, allDone)
		res.Violations = append(res.Violations, panicViolations(w, "C16/panic")...)
		// verdicts
		honestGot := 0
		for _, id := range cw.ids {
			surfaced := map[string]comm.InMsg{}
			for _, r := range cw.received(id) {
				m := r.msg
				if bytes.HasPrefix(m.Data, []byte("honest/")) {
					honestGot++
					var i, j, k int
					fmt.Sscanf(string(m.Data), "honest/%d/%d/%d", &i, &j, &k)
					if int(m.From) != i || j != id || m.Domain != cfg.Domain {
						viol("honest-misattributed", fmt.Sprintf("party %d received %q attributed to node %d under domain %q", id, m.Data[:min(40, len(m.Data))], m.From, m.Domain))
					} else if !bytes.Equal(m.Data, c16HonestPayload(i, j, k, cfg.HonestSize)) {
						viol("content-not-sent", fmt.Sprintf("the message that party %d holds as message %d of node %d (%d bytes) is not what node %d sent: %d bytes differ, e.g. %q", id, k, m.From, len(m.Data), m.From, diffCount(m.Data, c16HonestPayload(i, j, k, cfg.HonestSize)), firstDiff(m.Data, c16HonestPayload(i, j, k, cfg.HonestSize))))
					}
					continue
				}
				if !bytes.Equal(m.Topic, markerTopic) || !bytes.HasPrefix(m.Data, []byte("attack-")) || len(m.Data) > 12 {
					viol("content-not-sent", fmt.Sprintf("party %d holds a message attributed to node %d that nobody sent in this form: %q", id, m.From, m.Data[:min(60, len(m.Data))]))
				}
				if bytes.Equal(m.Topic, markerTopic) {
					surfaced[string(m.Data)] = m
				}
			}
			for k, a := range cfg.Attacks {
				if a.Victim != id || states[k] == nil || !states[k].done {
					continue
				}
				st := states[k]
				m, got := surfaced[fmt.Sprintf("attack-%d", k)]
				switch {
				case got && !st.expectOK:
					viol("attributed-without-proof", fmt.Sprintf("handshake variant %q (derived from node %d's identity) was accepted by party %d: its message surfaced attributed to node %d, domain %q", a.Variant, a.Claimed, id, m.From, m.Domain))
				case got && (int(m.From) != st.expectNode || m.Domain != st.expectDomain):
					viol("wrong-attribution", fmt.Sprintf("valid handshake of node %d under domain %q surfaced attributed to node %d under domain %q", st.expectNode, st.expectDomain, m.From, m.Domain))
				case !got && st.expectOK && st.note == "":
					viol("valid-handshake-rejected", fmt.Sprintf("handshake variant %q is a complete proof of node %d's registered identity on this connection, but its message did not surface at party %d", a.Variant, a.Claimed, id))
				}
				if got {
					w.Probes["attributed-connections"]++
				} else {
					w.Probes["rejected-connections"]++
				}
			}
		}
		if honestGot < honestTotal && len(res.Violations) == 0 {
			viol("honest-traffic-lost", fmt.Sprintf("only %d of %d honest messages arrived while adversarial connections were being made", honestGot, honestTotal))
		}
		res.Nontrivial = w.Probes["rejected-connections"] > 0 && honestGot > 0
		cw.teardown()
		fillResult(res, w, ss)
	})
	return res
}

func diffCount(a, b []byte) int {
	n := 0
	for i := 0; i < len(a) && i < len(b); i++ {
		if a[i] != b[i] {
			n++
		}
	}
	if len(a) > len(b) {
		return n + len(a) - len(b)
	}
	return n + len(b) - len(a)
}

func firstDiff(a, b []byte) []byte {
	for i := 0; i < len(a) && i < len(b); i++ {
		if a[i] != b[i] {
			return a[i:min(i+24, len(a))]
		}
	}
	return nil
}

func init() {
	register(&Check{ID: "C16", Run: runC16})
}
