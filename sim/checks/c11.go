package checks

import (
	"context"
	"encoding/json"
	"fmt"
	"testing"
	"time"

	"verif/sim/netsim"
	"verif/sim/prng"
)

// C11 — KeyGen and Sign fail cleanly on timeout, cancellation or a vanished peer.

// (Direct: the key generators of the built-in schemes used directly, see runC11Direct)
type C11Cfg struct {
	Direct     bool   `json:"direct,omitempty"`
	Sess       C04Cfg `json:"sess"`
	Fault      string `json:"fault"` // none | crash | withhold | cancel | badshare
	P          uint16 `json:"p"`     // crash: the peer that goes silent after its K-th outgoing message
	K          int    `json:"k"`
	J          int    `json:"j"`          // withhold: ordinal (in wire order) of the single lost message
	CancelAt   int    `json:"cancelAt"`   // cancel: step at which node P's context is cancelled
	// direct mode only (see directOpts): cancellation from within a party's own send / deadline during slow sends
	CisParty   uint16 `json:"cisParty,omitempty"`
	CisNth     int    `json:"cisNth,omitempty"`
	SlowSendMs int    `json:"slowSendMs,omitempty"`
	DirDeadMs  int    `json:"dirDeadMs,omitempty"`
	Canonical  bool   `json:"canonical"`  // canonical (fair, oldest-first) schedule instead of the seeded one
	Enum       bool   `json:"enum"`       // part of the exhaustive crash-point / withheld-message enumeration
	DeadlineMs int    `json:"deadlineMs"` // context deadline of every call
}

type c11Base struct {
	backend string
	silent  bool
	op      string
	n       int
}

var c11Bases = []c11Base{
	{"scripted", false, "keygen", 3}, {"scripted", true, "keygen", 3},
	{"scripted", false, "sign", 3}, {"scripted", true, "sign", 3},
	{"bls", false, "keygen", 3}, {"bls", true, "keygen", 3},
	{"ps", false, "keygen", 3}, {"ps", true, "keygen", 3},
}

const (
	c11MaxK    = 70  // crash points enumerated per peer (runs beyond the peer's last message are skipped)
	c11MaxJ    = 170 // withheld-message ordinals enumerated per base
	c11PerBase = 3*(c11MaxK+1) + c11MaxJ
)

func c11EnumSize() int { return len(c11Bases) * c11PerBase }

func baseSess(b c11Base, r *prng.Rand) C04Cfg {
	var ids []uint16
	for i := 1; i <= b.n; i++ {
		ids = append(ids, uint16(i))
	}
	s := C04Cfg{N: b.n, T: 2, Late: -1, Topic: "topic-c11", Op: b.op, Serial: true, Strategy: "fifo"}
	s.Deploy = DeployCfg{IDs: ids, Silent: b.silent, Threshold: b.n - 1, Backend: b.backend}
	s.Deploy.SP = genScriptedParams(r, 2)
	s.Deploy.SP.Lockstep = true
	s.Deploy.SignSP = genScriptedParams(r, 2)
	s.Deploy.SignSP.Lockstep = true
	s.Signers = ids
	return s
}

func genC11(seed uint64, index int, tier string) C11Cfg {
	r := prng.Derive(seed, "cfg")
	if index < c11EnumSize() {
		b := c11Bases[index/c11PerBase]
		rest := index % c11PerBase
		// the enumeration must not depend on the seed: fixed parameters
		c := C11Cfg{Sess: baseSess(b, prng.New(7)), Canonical: true, Enum: true, DeadlineMs: 8000}
		if rest < 3*(c11MaxK+1) {
			c.Fault = "crash"
			c.P = uint16(1 + rest/(c11MaxK+1))
			c.K = rest % (c11MaxK + 1)
		} else {
			c.Fault = "withhold"
			c.J = rest - 3*(c11MaxK+1)
		}
		return c
	}
	bases := c11Bases
	b := bases[r.Intn(len(bases))]
	b.n = r.Range(2, 4)
	if tier == "thorough" {
		b.n = r.Range(2, 5)
	}
	s := baseSess(b, r)
	if r.Bool(0.03) && b.n >= 2 {
		// the tss-lib EdDSA adapter under the same faults (about a second per run)
		b.backend, b.op = "eddsa", "keygen"
		s = baseSess(b, r)
		s.Deploy.Threshold = b.n - 1
	}
	s.Deploy.SP.Lockstep = r.Bool(0.5)
	s.Deploy.SignSP.Lockstep = r.Bool(0.5)
	s.T = r.Range(2, max(2, b.n))
	if b.n == 2 {
		s.T = 2
	}
	if b.backend == "eddsa" {
		s.T = b.n - 1 // tss-lib threshold: t+1 parties reconstruct
	}
	s.Strategy = pickStr(r, netsim.Strategies)
	s.Serial = true
	if r.Bool(0.3) {
		s.Late = r.Intn(b.n)
	}
	c := C11Cfg{Sess: s, DeadlineMs: 3000 + r.Intn(12000)}
	c.Fault = pickStr(r, []string{"crash", "crash", "withhold", "withhold", "cancel", "cancel", "badshare", "none"})
	if c.Fault == "badshare" && s.Op != "sign" {
		c.Sess.Op = "sign"
		c.Sess.Deploy.Backend = "scripted"
	}
	c.P = uint16(1 + r.Intn(b.n))
	c.K = r.Intn(60)
	c.J = r.Intn(150)
	c.CancelAt = r.Intn(250)
	if rx := prng.Derive(seed, "direct"); (c.Sess.Deploy.Backend == "bls" || c.Sess.Deploy.Backend == "ps") && c.Sess.Op == "keygen" && rx.Bool(0.5) {
		c.Direct = true
		c.Fault = "direct-cancel"
		c.K = rx.Intn(3 * len(c.Sess.Deploy.IDs))
		c.CancelAt = 5 + rx.Intn(120)
		switch n := len(c.Sess.Deploy.IDs); rx.Intn(10) {
		case 0, 1, 2, 3: // cancelled while running: from within some party's own i-th send
			c.CisParty = c.Sess.Deploy.IDs[rx.Intn(n)]
			c.CisNth = 1 + rx.Intn(n+2)
			c.CancelAt = 0
		case 4, 5: // a deadline that can expire while a caller is inside a (slow) send
			c.SlowSendMs = 1 + rx.Intn(8)
			c.DirDeadMs = 1 + rx.Intn(12*n)
			c.CancelAt = 0
		}
	}
	if rd := prng.Derive(seed, "real-init-delay"); c.Sess.Deploy.Backend != "scripted" && rd.Bool(0.3) {
		c.Sess.Deploy.RealInitDelayMs = rd.Range(1, 40)
	}
	// a quarter of the scripted runs: the backend returns only some simulated time after the end of its context (as the
	// tss-lib ECDSA adapter does); the API call must return by its deadline / cancellation all the same
	if rl := prng.Derive(seed, "linger"); c.Sess.Deploy.Backend == "scripted" && rl.Bool(0.25) {
		c.Sess.Deploy.SP.LingerMs = rl.Range(50, 4000)
		c.Sess.Deploy.SignSP.LingerMs = c.Sess.Deploy.SP.LingerMs
	}
	// a third of the runs: the same scenario over small non-contiguous identifiers (order-preserving renaming)
	if r.Bool(0.33) {
		m := map[uint16]uint16{}
		next := uint16(0)
		for _, id := range s.Deploy.IDs {
			next += uint16(r.Range(1, 9))
			m[id] = next
		}
		ren := func(in []uint16) []uint16 {
			var out []uint16
			for _, id := range in {
				out = append(out, m[id])
			}
			return out
		}
		c.Sess.Deploy.IDs = ren(s.Deploy.IDs)
		c.Sess.Signers = ren(s.Signers)
		c.P = m[c.P]
		if c.CisParty != 0 {
			c.CisParty = m[c.CisParty]
		}
	}
	return c
}

func max(a, b int) int {
	if a > b {
		return a
	}
	return b
}

// runC11Direct: the KeyGenerator API used directly (no orchestrator in front of it that returns on the context's
// behalf): a peer goes silent after K messages and every context is CANCELLED (not expired) at some step; every
// KeyGen call must return.
func runC11Direct(t *testing.T, spec RunSpec, cfg C11Cfg, res *RunResult) {
	sc := cfg.Sess
	res.ConfigKey = fmt.Sprintf("%s direct-api keygen n=%d fault=cancel+silent-peer", sc.Deploy.Backend, len(sc.Deploy.IDs))
	restore := seedCryptoRand(spec.Seed)
	defer restore()
	bubble(t, func() {
		w := netsim.NewWorld(spec.Seed)
		w.Serial = true
		trace(spec, res.Cfg, w)
		lg := NewCountLogger()
		tt := sc.T
		if tt < 2 {
			tt = 2
		}
		_, calls, ss := runDirectDKG(spec, w, sc.Deploy.Backend, sc.Deploy.IDs, tt, 2, sc.Strategy, lg, directOpts{Silent: cfg.P, SilentAfter: cfg.K, CancelAtStep: cfg.CancelAt, CisParty: cfg.CisParty, CisNth: cfg.CisNth, SlowSendMs: cfg.SlowSendMs, DeadlineMs: cfg.DirDeadMs})
		res.Violations = append(res.Violations, panicViolations(w, "C11/panic")...)
		if len(res.Violations) == 0 {
			for _, c := range calls {
				if !w.CallDone(c) {
					res.Violations = append(res.Violations, netsim.Violation{Invariant: "C11/blocks-forever", Class: "C11/blocks-forever/" + sc.Deploy.Backend + "/direct-api", Detail: fmt.Sprintf("KeyGen of party %d is still blocked although its context was cancelled (peer %d went silent after %d messages): %s", c.Node, cfg.P, cfg.K, callSummary(calls))})
					break
				}
			}
		}
		res.Nontrivial = w.Faults["cancel"]+w.Faults["cancel-in-send"]+w.Faults["deadline"] > 0
		fillResult(res, w, ss)
	})
}

func runC11(t *testing.T, spec RunSpec) *RunResult {
	var cfg C11Cfg
	if spec.Cfg != nil {
		if err := json.Unmarshal(spec.Cfg, &cfg); err != nil {
			panic(err)
		}
	} else {
		cfg = genC11(spec.Seed, spec.Index, spec.Tier)
	}
	res := &RunResult{Property: "C11", Seed: spec.Seed, Cfg: mustJSON(cfg), Strategy: cfg.Sess.Strategy}
	if cfg.Direct {
		runC11Direct(t, spec, cfg, res)
		return res
	}
	mode := "loud"
	if cfg.Sess.Deploy.Silent {
		mode = "silent"
	}
	res.ConfigKey = fmt.Sprintf("%s %s %s n=%d fault=%s enum=%v", cfg.Sess.Deploy.Backend, mode, cfg.Sess.Op, cfg.Sess.N, cfg.Fault, cfg.Enum)
	restore := seedCryptoRand(spec.Seed)
	defer restore()
	bubble(t, func() {
		sc := cfg.Sess
		w := netsim.NewWorld(spec.Seed)
		if sc.Deploy.SP.LingerMs > 0 {
			w.Probes["lingering-backend"]++
		}
		w.Serial = sc.Serial
		trace(spec, res.Cfg, w)
		d := NewDeployment(w, sc.Deploy)
		d.Build()
		var sched netsim.Scheduler
		var ss *netsim.ScriptSched
		if spec.Scripted || spec.Actions != nil || !cfg.Canonical {
			sched, ss = scheduler(spec, sc.Strategy)
		} else {
			sched = &netsim.CanonicalSched{}
		}
		faultFired := false
		inflight := false
		wireOrd := 0
		w.Filter = func(m *netsim.Msg) []*netsim.Msg {
			wireOrd++
			switch cfg.Fault {
			case "crash":
				if m.From == cfg.P && w.Nodes[cfg.P].Sent > cfg.K {
					if !faultFired {
						faultFired = true
						inflight = w.QueuedTotal() > 0 || isMPC(m)
						w.Nodes[cfg.P].Down = true
					}
					w.Faults["crash-drop-out"]++
					return nil
				}
			case "withhold":
				if wireOrd-1 == cfg.J {
					faultFired = true
					inflight = true
					w.Faults["withhold:"+m.Class()]++
					return nil
				}
			}
			return []*netsim.Msg{m}
		}
		if cfg.Fault == "crash" && cfg.K == 0 {
			// the peer never shows up at all
			w.Nodes[cfg.P].Down = true
			faultFired = true
			w.Faults["crash-before-start"]++
		}
		deadline := time.Duration(cfg.DeadlineMs)*time.Millisecond + 7*time.Microsecond
		st := &starter{}
		var parties []uint16
		for _, id := range sc.Deploy.IDs {
			parties = append(parties, id)
		}
		cancels := map[uint16]context.CancelFunc{}
		noDeadline := map[uint16]bool{}
		for i, id := range sc.Deploy.IDs {
			id := id
			if cfg.Fault == "crash" && cfg.K == 0 && id == cfg.P {
				continue
			}
			wgt := 3.0
			if i == sc.Late {
				wgt = 0.01
			}
			mk := func() context.Context {
				if cfg.Fault == "badshare" && id == cfg.P {
					// the call with the unusable share gets a context that never expires
					ctx, c := d.Ctx(0)
					cancels[id] = c
					noDeadline[id] = true
					return ctx
				}
				ctx, c := d.Ctx(deadline)
				cancels[id] = c
				return ctx
			}
			if sc.Op == "sign" {
				sd := fabricatedStored(parties, sc.T, id)
				if cfg.Fault == "badshare" && id == cfg.P {
					sd = []byte("this is not share data")
				}
				d.Parties[id].SetStoredData(sd)
				st.add(fmt.Sprintf("start:sg:%d", id), id, wgt, func() *netsim.Call {
					return startSignCtx(d, id, sha([]byte("digest")), sc.Topic, mk())()
				})
			} else {
				st.add(fmt.Sprintf("start:kg:%d", id), id, wgt, func() *netsim.Call {
					ctx := mk()
					p := d.Parties[id]
					return w.StartCall("KeyGen", id, func() ([]byte, error) { return p.KeyGen(ctx, sc.N, sc.T) })
				})
			}
		}
		cancelled := map[uint16]time.Duration{}
		w.Propose = func() []netsim.Proposal {
			ps := st.proposals()
			if cfg.Fault == "cancel" && st.allStarted() && w.Step >= cfg.CancelAt {
				if _, done := cancelled[cfg.P]; !done {
					if c := cancels[cfg.P]; c != nil {
						ps = append(ps, netsim.Proposal{Key: fmt.Sprintf("cancel:%d", cfg.P), Mandatory: true, Weight: 50, Fire: func() {
							cancelled[cfg.P] = w.Now()
							faultFired = true
							inflight = w.QueuedTotal() > 0
							w.Faults["cancel"]++
							c()
						}})
					}
				}
			}
			return ps
		}
		alive := func() []*netsim.Call {
			var cs []*netsim.Call
			for _, c := range st.calls() {
				if cfg.Fault == "crash" && c.Node == cfg.P {
					continue // a dead process owes nobody a return value
				}
				cs = append(cs, c)
			}
			return cs
		}
		allReturned := func() bool {
			if !st.allStarted() {
				return false
			}
			for _, c := range alive() {
				if !w.CallDone(c) {
					return false
				}
			}
			return true
		}
		lim := netsim.RunLimits{MaxSteps: 60000, Horizon: deadline + 40*time.Second, FairAfterSteps: 4000, FairAfter: deadline / 2}
		v := w.Run(sched, lim, func() bool { return allReturned() && quiet(w) })
		if v != nil {
			res.Violations = append(res.Violations, *v)
		}
		viol := func(class, detail string) {
			res.Violations = append(res.Violations, netsim.Violation{Invariant: "C11/" + class, Class: "C11/" + class + "/" + cfg.Sess.Deploy.Backend + "/" + cfg.Sess.Op + "/" + cfg.Fault, Detail: detail})
		}
		eps := time.Second
		for _, c := range alive() {
			if !w.CallDone(c) {
				if noDeadline[c.Node] {
					viol("blocks-forever", fmt.Sprintf("%s on node %d has unusable stored data and a context that never expires; it had not returned %v after every peer's deadline (%s)", c.Name, c.Node, w.Now()-deadline, callSummary(st.calls())))
				} else {
					viol("no-return", fmt.Sprintf("%s on node %d had not returned at t=%v although its context expired at %v after its start at %v (%s)", c.Name, c.Node, w.Now(), deadline, c.StartAt, callSummary(st.calls())))
				}
				continue
			}
			if c.Panic != "" {
				continue
			}
			if !noDeadline[c.Node] && c.EndAt > c.StartAt+deadline+eps {
				viol("late-return", fmt.Sprintf("%s on node %d returned at %v, its deadline was %v", c.Name, c.Node, c.EndAt, c.StartAt+deadline))
			}
			if at, ok := cancelled[c.Node]; ok && c.EndAt > at+eps && c.EndAt > c.StartAt {
				if c.Err != nil || true {
					if c.EndAt > at+eps {
						viol("late-return-after-cancel", fmt.Sprintf("%s on node %d was cancelled at %v and returned at %v", c.Name, c.Node, at, c.EndAt))
					}
				}
			}
			if cfg.Fault == "badshare" && c.Node == cfg.P && c.Err == nil {
				viol("success-with-bad-share", fmt.Sprintf("%s on node %d returned success with unusable stored data", c.Name, c.Node))
			}
		}
		// background goroutines must stay quiet for a further five simulated minutes
		if len(res.Violations) == 0 {
			for i := 0; i < 30 && w.PanicCount() == 0; i++ {
				time.Sleep(10*time.Second + 11*time.Microsecond)
			}
		}
		res.Violations = append(res.Violations, panicViolations(w, "C11/panic")...)
		outcomes := ""
		nerr := 0
		for _, c := range alive() {
			if c.Done && c.Err != nil {
				nerr++
			}
		}
		outcomes = fmt.Sprintf("errors=%d/%d", nerr, len(alive()))
		w.Probes["calls-returned-error"] += nerr
		if faultFired && inflight {
			w.Probes["fault-while-traffic-in-flight"]++
		}
		if cfg.Enum && !faultFired {
			res.Skipped = true // the enumeration index lies beyond the end of this run's traffic
		}
		if cfg.Enum && faultFired {
			w.Probes["enumerated-"+cfg.Fault+"-points"]++
		}
		res.Nontrivial = faultFired && inflight
		d.Teardown()
		fillResult(res, w, ss)
		res.Fingerprint = fmt.Sprintf("%s/%s/%d/%d/%d/%s/%s", res.ConfigKey, cfg.Fault, cfg.P, cfg.K, cfg.J, outcomes, res.Fingerprint)
	})
	return res
}

func init() {
	register(&Check{ID: "C11", Run: runC11})
}
