package checks

import (
	"context"
	"encoding/json"
	"fmt"
	"sort"
	"time"

	"verif/sim/netsim"
	"verif/sim/prng"
	"verif/sim/scripted"
)

// pendingStart is an API call that the scheduler may start at any quiescent point.
type pendingStart struct {
	Key       string
	Node      uint16
	Weight    float64
	JoinWith  bool // concurrent dispatch: the start waits for a delivery into its node and joins that step
	JoinClass string
	JoinP     float64
	Start     func() *netsim.Call
	Call      *netsim.Call
}

type starter struct {
	pend []*pendingStart
}

func (s *starter) add(key string, node uint16, weight float64, f func() *netsim.Call) *pendingStart {
	p := &pendingStart{Key: key, Node: node, Weight: weight, Start: f}
	s.pend = append(s.pend, p)
	return p
}

func (s *starter) proposals() []netsim.Proposal {
	var out []netsim.Proposal
	for _, p := range s.pend {
		if p.Call != nil {
			continue
		}
		p := p
		out = append(out, netsim.Proposal{Key: p.Key, Mandatory: true, Weight: p.Weight, JoinWith: p.JoinWith, JoinNode: p.Node, JoinClass: p.JoinClass, JoinP: p.JoinP, Fire: func() { p.Call = p.Start() }})
	}
	return out
}

// drop removes a start that has not happened yet.
func (s *starter) drop(key string) {
	var keep []*pendingStart
	for _, p := range s.pend {
		if p.Key == key && p.Call == nil {
			continue
		}
		keep = append(keep, p)
	}
	s.pend = keep
}

func (s *starter) allStarted() bool {
	for _, p := range s.pend {
		if p.Call == nil {
			return false
		}
	}
	return true
}

func (s *starter) allDone(w *netsim.World) bool {
	for _, p := range s.pend {
		if p.Call == nil || !w.CallDone(p.Call) {
			return false
		}
	}
	return true
}

func (s *starter) calls() []*netsim.Call {
	var cs []*netsim.Call
	for _, p := range s.pend {
		if p.Call != nil {
			cs = append(cs, p.Call)
		}
	}
	return cs
}

func quiet(w *netsim.World) bool {
	return w.QueuedTotal() == 0 && w.BusyLinks() == 0
}

// fabricatedStored returns share data that the scripted signer accepts,
// for sessions that sign without a preceding key generation.
func fabricatedStored(parties []uint16, t int, self uint16) []byte {
	st := scripted.Stored{Parties: parties, Threshold: t, Transcript: sha([]byte("fabricated")), Self: self}
	b, _ := json.Marshal(st)
	return b
}

func startKeyGen(d *Deployment, id uint16, n, t int, timeout time.Duration) func() *netsim.Call {
	return func() *netsim.Call {
		ctx, _ := d.Ctx(timeout)
		p := d.Parties[id]
		return d.W.StartCall("KeyGen", id, func() ([]byte, error) { return p.KeyGen(ctx, n, t) })
	}
}

func startSign(d *Deployment, id uint16, digest []byte, topic string, timeout time.Duration) func() *netsim.Call {
	return func() *netsim.Call {
		ctx, _ := d.Ctx(timeout)
		p := d.Parties[id]
		return d.W.StartCall("Sign:"+topic, id, func() ([]byte, error) { return p.Sign(ctx, digest, topic) })
	}
}

func startSignCtx(d *Deployment, id uint16, digest []byte, topic string, ctx context.Context) func() *netsim.Call {
	return func() *netsim.Call {
		p := d.Parties[id]
		return d.W.StartCall("Sign:"+topic, id, func() ([]byte, error) { return p.Sign(ctx, digest, topic) })
	}
}

// signersFor returns the nodes that take part in a signing session on topic.
func signersFor(d *Deployment, r *prng.Rand, topic string) []uint16 {
	k := d.Cfg.Threshold + 1
	if d.Cfg.Silent && d.Cfg.PickFixed != nil {
		return append([]uint16(nil), d.Cfg.PickFixed[:k]...)
	}
	if d.Cfg.Silent {
		return PickMembers(d.allConfigured(), d.Cfg.PickUnsorted)(sha([]byte(topic)), k)
	}
	ids := append([]uint16(nil), d.Cfg.IDs...)
	sort.Slice(ids, func(i, j int) bool { return ids[i] < ids[j] })
	perm := r.Perm(len(ids))
	var out []uint16
	for _, i := range perm[:k] {
		out = append(out, ids[i])
	}
	sort.Slice(out, func(i, j int) bool { return out[i] < out[j] })
	return out
}

func genScriptedParams(r *prng.Rand, maxRounds int) scripted.Params {
	p := scripted.Params{Rounds: r.Range(1, maxRounds), Bcast: r.Range(1, 3), P2P: r.Range(0, 3), Lockstep: r.Bool(0.3), BodyLen: r.Range(8, 40)}
	// wire rounds are RoundBase .. RoundBase+span; the documented range is 0..127: a quarter of the sessions end
	// exactly at 127, a tenth start at 0
	width := 1
	if p.Bcast > 1 {
		width = p.Bcast
	}
	span := (p.Rounds-1)*width + p.Bcast - 1
	p.RoundBase = uint8(r.Range(0, 127-p.Rounds*3))
	switch x := r.Intn(20); {
	case x < 5:
		p.RoundBase = uint8(127 - span)
	case x < 7:
		p.RoundBase = 0
	}
	// a quarter of the backends take simulated time to initialise (see scripted.Params.InitDelayMs)
	if r.Bool(0.25) {
		p.InitDelayMs = r.Range(1, 40)
	}
	return p
}

func callSummary(cs []*netsim.Call) string {
	s := ""
	for _, c := range cs {
		st := "pending"
		if c.Done {
			st = "ok"
			if c.Err != nil {
				st = "err(" + c.Err.Error() + ")"
			}
			if c.Panic != "" {
				st = "panic(" + c.Panic + ")"
			}
		}
		s += fmt.Sprintf("%s@%d=%s ", c.Name, c.Node, st)
	}
	return s
}

// wideIDs replaces the identifiers 1..n by n distinct identifiers drawn over the whole 16-bit range (boundary
// values such as 0, the byte boundaries and 0xFFFF included), keeping their order: zero values, truncations and
// sign problems hide at such identifiers, and nothing in the orchestration may depend on identifiers being small.
func wideIDs(r *prng.Rand, n int) []uint16 {
	seen := map[uint16]bool{}
	var ids []uint16
	for len(ids) < n {
		var id uint16
		switch r.Intn(3) {
		case 0:
			id = boundaryIDs[r.Intn(len(boundaryIDs))]
		case 1:
			id = uint16(r.Intn(65536))
		default:
			id = uint16(r.Intn(300))
		}
		if !seen[id] {
			seen[id] = true
			ids = append(ids, id)
		}
	}
	sort.Slice(ids, func(i, j int) bool { return ids[i] < ids[j] })
	return ids
}

// sparseMembership draws a membership of m = n..n+2 small, non-contiguous identifiers (node id = party id)
// and the n of them that take part in a key generation; in silent mode the participants are what the
// membership selection returns (in a shuffled order when unsorted is set).
func sparseMembership(r *prng.Rand, n int, silent, unsorted bool) (all, part, pickFixed []uint16) {
	m := n + r.Intn(3)
	seen := map[uint16]bool{}
	for len(all) < m {
		id := uint16(r.Intn(40))
		if !seen[id] {
			seen[id] = true
			all = append(all, id)
		}
	}
	sort.Slice(all, func(i, j int) bool { return all[i] < all[j] })
	perm := r.Perm(m)[:n]
	sort.Ints(perm)
	for _, i := range perm {
		part = append(part, all[i])
	}
	if silent {
		pickFixed = append([]uint16(nil), part...)
		if unsorted {
			for i := len(pickFixed) - 1; i > 0; i-- {
				j := r.Intn(i + 1)
				pickFixed[i], pickFixed[j] = pickFixed[j], pickFixed[i]
			}
		}
	}
	return
}
