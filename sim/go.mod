module verif/sim

go 1.26.8

require (
	github.com/IBM/TSS v0.0.0
	github.com/IBM/TSS/mpc/binance/ecdsa v0.0.0
	github.com/IBM/TSS/mpc/binance/eddsa v0.0.0
	github.com/IBM/TSS/mpc/bls v0.0.0
	github.com/IBM/TSS/mpc/ps v0.0.0
	github.com/IBM/mathlib v0.0.3-0.20230831091907-c532c4d3b65c
)

require (
	github.com/consensys/bavard v0.1.13 // indirect
	github.com/consensys/gnark-crypto v0.9.1 // indirect
	github.com/hyperledger/fabric-amcl v0.0.0-20230602173724-9e02669dceb2 // indirect
	github.com/kilic/bls12-381 v0.1.0 // indirect
	github.com/mmcloughlin/addchain v0.4.0 // indirect
	github.com/pkg/errors v0.9.1 // indirect
	golang.org/x/crypto v0.13.0 // indirect
	golang.org/x/sys v0.12.0 // indirect
	rsc.io/tmplfunc v0.0.3 // indirect
)

replace github.com/IBM/TSS => /repo

replace github.com/IBM/TSS/mpc/bls => /repo/mpc/bls

replace github.com/IBM/TSS/mpc/ps => /repo/mpc/ps

replace github.com/IBM/TSS/mpc/binance/ecdsa => /repo/mpc/binance/ecdsa

replace github.com/IBM/TSS/mpc/binance/eddsa => /repo/mpc/binance/eddsa

replace github.com/IBM/mathlib => github.com/IBM/mathlib v0.0.3-0.20230822192135-eacb031f2534

replace github.com/agl/ed25519 => github.com/binance-chain/edwards25519 v0.0.0-20200305024217-f36fc4b53d43
