// Command mkoverlay generates the `go build -overlay` file of an engine from
// the current working tree of the repository.
//
//	mkoverlay coop    <repo> <scratch> <out.json>   msg: imports "sync", "sync/atomic" -> verif/sim/simsync[/atomic]
//	mkoverlay connsim <repo> <scratch> <out.json>   net: tls.Dial( -> verifDialTLS( plus one generated file
//
// Nothing else in the packages changes, so locks added, removed or moved by a
// later edit are instrumented automatically. A rewrite target that has
// disappeared is an error (exit 1), which the driver reports as exit 2.
package main

import (
	"bytes"
	"encoding/json"
	"fmt"
	"go/ast"
	"go/format"
	"go/parser"
	"go/token"
	"os"
	"path/filepath"
	"strconv"
	"strings"
)

func fail(format string, a ...interface{}) {
	fmt.Fprintf(os.Stderr, "mkoverlay: "+format+"\n", a...)
	os.Exit(1)
}

func main() {
	if len(os.Args) != 5 {
		fail("usage: mkoverlay coop|connsim <repo> <scratch> <out.json>")
	}
	kind, repo, scratch, out := os.Args[1], os.Args[2], os.Args[3], os.Args[4]
	replace := map[string]string{}
	switch kind {
	case "coop":
		dir := filepath.Join(repo, "msg")
		files, _ := filepath.Glob(filepath.Join(dir, "*.go"))
		rewritten := 0
		for _, f := range files {
			if strings.HasSuffix(f, "_test.go") {
				continue
			}
			fset := token.NewFileSet()
			af, err := parser.ParseFile(fset, f, nil, parser.ParseComments)
			if err != nil {
				fail("%v", err)
			}
			changed := false
			for _, imp := range af.Imports {
				p, _ := strconv.Unquote(imp.Path.Value)
				switch p {
				case "sync":
					imp.Path.Value = strconv.Quote("verif/sim/simsync")
					if imp.Name == nil {
						imp.Name = ast.NewIdent("sync")
					}
					changed = true
				case "sync/atomic":
					imp.Path.Value = strconv.Quote("verif/sim/simsync/atomic")
					changed = true
				}
			}
			if !changed {
				continue
			}
			var buf bytes.Buffer
			if err := format.Node(&buf, fset, af); err != nil {
				fail("%v", err)
			}
			dst := filepath.Join(scratch, "coop_"+filepath.Base(f))
			if err := os.WriteFile(dst, buf.Bytes(), 0o644); err != nil {
				fail("%v", err)
			}
			replace[f] = dst
			rewritten++
		}
		if rewritten == 0 {
			fail("package msg no longer imports sync: nothing to instrument")
		}
	case "connsim":
		f := filepath.Join(repo, "net", "net.go")
		fset := token.NewFileSet()
		af, err := parser.ParseFile(fset, f, nil, parser.ParseComments)
		if err != nil {
			fail("%v", err)
		}
		n := 0
		ast.Inspect(af, func(node ast.Node) bool {
			call, ok := node.(*ast.CallExpr)
			if !ok {
				return true
			}
			sel, ok := call.Fun.(*ast.SelectorExpr)
			if !ok {
				return true
			}
			if id, ok := sel.X.(*ast.Ident); ok && id.Name == "tls" && sel.Sel.Name == "Dial" {
				call.Fun = ast.NewIdent("verifDialTLS")
				n++
			}
			return true
		})
		if n == 0 {
			fail("net/net.go no longer calls tls.Dial: the dial seam cannot be installed")
		}
		var buf bytes.Buffer
		if err := format.Node(&buf, fset, af); err != nil {
			fail("%v", err)
		}
		dst := filepath.Join(scratch, "connsim_net.go")
		os.WriteFile(dst, buf.Bytes(), 0o644)
		replace[f] = dst
		hook := filepath.Join(scratch, "connsim_hook.go")
		os.WriteFile(hook, []byte(connsimHook), 0o644)
		replace[filepath.Join(repo, "net", "zz_verif_dial_hook.go")] = hook
	default:
		fail("unknown overlay kind %q", kind)
	}
	b, _ := json.MarshalIndent(map[string]interface{}{"Replace": replace}, "", " ")
	if err := os.WriteFile(out, b, 0o644); err != nil {
		fail("%v", err)
	}
}

const connsimHook = `package net

import (
	"crypto/tls"
	stdnet "net"
	"strings"
)

// VerifDialer, when set by the simulator, provides the byte stream of an outgoing connection.
// Present only in binaries built by /verif (go build -overlay); the shipped package calls tls.Dial.
var VerifDialer func(network, addr string) (stdnet.Conn, error)

func verifDialTLS(network, addr string, cfg *tls.Config) (*tls.Conn, error) {
	d := VerifDialer
	if d == nil {
		return tls.Dial(network, addr, cfg)
	}
	raw, err := d(network, addr)
	if err != nil {
		return nil, err
	}
	c := cfg.Clone()
	if c.ServerName == "" {
		host := addr
		if i := strings.LastIndex(host, ":"); i >= 0 {
			host = host[:i]
		}
		c.ServerName = host
	}
	conn := tls.Client(raw, c)
	if err := conn.Handshake(); err != nil {
		raw.Close()
		return nil, err
	}
	return conn, nil
}
`
