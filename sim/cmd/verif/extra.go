package main

import (
	"fmt"
	"os"
	"os/exec"
	"path/filepath"
	"strconv"
	"strings"

	"verif/sim/meta"
)

func makeOverlay(kind, scratch string) (string, error) {
	gen := filepath.Join(verifDir, "bin", "mkoverlay")
	out := filepath.Join(scratch, "overlay.json")
	cmd := exec.Command(gen, kind, repoDir, scratch, out)
	b, err := cmd.CombinedOutput()
	if err != nil {
		return "", fmt.Errorf("%v: %s", err, b)
	}
	return out, nil
}

func cmdBaseline() int {
	cmd := exec.Command("bash", filepath.Join(verifDir, "scripts", "baseline_off.sh"))
	cmd.Stdout = os.Stdout
	cmd.Stderr = os.Stderr
	if err := cmd.Run(); err != nil {
		return 1
	}
	return 0
}

// selftest determinism: every seed is executed in several fresh processes at
// GOMAXPROCS 1, 4 and 16; fingerprints (schedule), content hashes (every
// delivered byte) and verdicts must be identical.
func cmdSelftest(args []string) int {
	if len(args) < 1 || args[0] != "determinism" {
		die2("usage: verif selftest determinism [--prop Cxx] [--seeds N]")
	}
	props := []string{}
	nseeds := 40
	for i := 1; i < len(args); i++ {
		switch args[i] {
		case "--prop":
			i++
			props = append(props, args[i])
		case "--seeds":
			i++
			nseeds, _ = strconv.Atoi(args[i])
		}
	}
	if len(props) == 0 {
		for id := range meta.Checks {
			props = append(props, id)
		}
	}
	bad := 0
	for _, prop := range props {
		m := meta.Checks[prop]
		if m == nil {
			die2("no check %s", prop)
		}
		b := buildWorker(m)
		var seeds []uint64
		for i := 0; i < nseeds; i++ {
			seeds = append(seeds, runSeed(12345, prop, i))
		}
		type sig struct{ fp, ch, verdict string }
		ref := map[uint64]sig{}
		diverging := map[uint64]bool{}
		contentOnly := map[uint64]bool{}
		concurrent := map[uint64]bool{}
		orderDependent := map[uint64]bool{}
		tsslib := map[uint64]bool{}
		tsslibDiff := map[uint64]bool{}
		execs := 0
		for _, procs := range []string{"1", "4", "16"} {
			for rep := 0; rep < 2; rep++ {
				os.Setenv("VERIF_WORKER_GOMAXPROCS", procs)
				out := runWorker(b.worker, Job{Property: prop, Tier: "quick", Seeds: seeds, RunLimitS: m.RunLimitS}, 60*60*1e9, m.Race)
				execs++
				if out.crashed {
					fmt.Printf("selftest: %s worker died at seed %d (GOMAXPROCS=%s); skipping that seed\n", prop, out.crashSeed, procs)
				}
				for _, r := range out.results {
					var vs []string
					for _, v := range r.Violations {
						vs = append(vs, v.Class)
					}
					s := sig{r.Fingerprint, r.ContentHash, strings.Join(vs, ",")}
					if r.Probes["concurrent-dispatch"] > 0 {
						concurrent[r.Seed] = true
					}
					if strings.HasPrefix(r.ConfigKey, "eddsa") || strings.HasPrefix(r.ConfigKey, "ecdsa") || strings.Contains(r.ConfigKey, " eddsa ") || strings.Contains(r.ConfigKey, " ecdsa ") {
						tsslib[r.Seed] = true // tss-lib runs its own goroutines and draws its own randomness
					}
					if old, ok := ref[r.Seed]; !ok {
						ref[r.Seed] = s
					} else if old != s {
						switch {
						case tsslib[r.Seed]:
							tsslibDiff[r.Seed] = true
						case concurrent[r.Seed]:
							// several deliveries into one node in one step: the order inside the step is the Go scheduler's
							orderDependent[r.Seed] = true
						case old.fp == s.fp && old.verdict == s.verdict:
							contentOnly[r.Seed] = true
						default:
							diverging[r.Seed] = true
							fmt.Printf("selftest: %s seed %d diverged at GOMAXPROCS=%s: %v vs %v\n", prop, r.Seed, procs, old, s)
						}
					}
				}
			}
		}
		os.Unsetenv("VERIF_WORKER_GOMAXPROCS")
		b.cleanup()
		fmt.Printf("selftest determinism: %s: %d seeds x %d executions; serial runs: %d, schedule/verdict divergences: %d, content-only differences: %d; concurrent-dispatch runs: %d, of which order-dependent: %d; tss-lib adapter runs: %d, of which differing: %d\n", prop, len(ref), execs, len(ref)-len(concurrent)-len(tsslib), len(diverging), len(contentOnly), len(concurrent), len(orderDependent), len(tsslib), len(tsslibDiff))
		bad += len(diverging)
	}
	if bad > 0 {
		return 1
	}
	return 0
}
