// Command verif is the driver of the deterministic-simulation checks.
//
//	verif check <Cxx> [--tier quick|thorough] [--seed N] [--runs N] [--secs S]
//	verif replay <file>
//	verif selftest determinism [--prop Cxx]
//	verif baseline-off
//
// check: rebuild the worker from /repo's working tree (with the overlay the
// engine needs), fan seeds out to worker processes, confirm + minimise the
// first violation of every class, write replay files and the evidence file.
// Exit codes: 0 held (possibly KNOWN-FINDING lines), 1 VIOLATION, 2 tool trouble.
package main

import (
	"bufio"
	"bytes"
	"crypto/sha256"
	"encoding/binary"
	"encoding/json"
	"fmt"
	"os"
	"os/exec"
	"path/filepath"
	"regexp"
	"runtime"
	"sort"
	"strconv"
	"strings"
	"sync"
	"time"

	"verif/sim/meta"
)

var (
	verifDir = envOr("VERIF_DIR", "/verif")
	repoDir  = envOr("VERIF_REPO", "/repo")
	goBin    = envOr("VERIF_GO", "go1.26.8")
	outDir   = envOr("VERIF_OUT", envOr("VERIF_DIR", "/verif")) // evidence/ and replays/ go here
)

func envOr(k, d string) string {
	if v := os.Getenv(k); v != "" {
		return v
	}
	return d
}

type Action struct {
	K string `json:"k"`
	D int64  `json:"d,omitempty"`
	C string `json:"c,omitempty"`
	J bool   `json:"j,omitempty"`
}

type Violation struct {
	Invariant string `json:"invariant"`
	Class     string `json:"class"`
	Detail    string `json:"detail"`
}

type RunSpec struct {
	Property string          `json:"property"`
	Seed     uint64          `json:"seed"`
	Index    int             `json:"index"`
	Tier     string          `json:"tier"`
	Cfg      json.RawMessage `json:"cfg,omitempty"`
	Actions  []Action        `json:"actions,omitempty"`
	Scripted bool            `json:"scripted,omitempty"`
	Lenient  bool            `json:"lenient,omitempty"`
}

type RunResult struct {
	Property    string          `json:"property"`
	Seed        uint64          `json:"seed"`
	Index       int             `json:"index"`
	Cfg         json.RawMessage `json:"cfg"`
	Violations  []Violation     `json:"violations,omitempty"`
	Actions     []Action        `json:"actions,omitempty"`
	Fingerprint string          `json:"fp"`
	ContentHash string          `json:"ch"`
	Nontrivial  bool            `json:"nontrivial"`
	Steps       int             `json:"steps"`
	Deliveries  int             `json:"deliveries"`
	Ticks       int             `json:"ticks"`
	SimMs       int64           `json:"simMs"`
	Faults      map[string]int  `json:"faults,omitempty"`
	Probes      map[string]int  `json:"probes,omitempty"`
	ConfigKey   string          `json:"configKey"`
	Strategy    string          `json:"strategy"`
	Diverged    string          `json:"diverged,omitempty"`
	Sample      string          `json:"sample,omitempty"`
	Skipped     bool            `json:"skipped,omitempty"`
}

type Job struct {
	Property  string   `json:"property"`
	Tier      string   `json:"tier"`
	Seeds     []uint64 `json:"seeds,omitempty"`
	First     int      `json:"first"`
	Replay    *RunSpec `json:"replay,omitempty"`
	Budget    float64  `json:"budget_s,omitempty"`
	TraceFile string   `json:"trace_file,omitempty"`
	RunLimitS float64  `json:"run_limit_s,omitempty"`
}

type Replay struct {
	Property  string          `json:"property"`
	Engine    string          `json:"engine"`
	Seed      uint64          `json:"seed"`
	Tier      string          `json:"tier"`
	Cfg       json.RawMessage `json:"cfg"`
	Actions   []Action        `json:"actions"`
	Violation Violation       `json:"violation"`
	Crash     bool            `json:"crash,omitempty"`
	Minimised bool            `json:"minimised"`
	OrigLen   int             `json:"original_actions"`
	RepoRev   string          `json:"repo_rev"`
	Note      string          `json:"note,omitempty"`
}

type Known struct {
	Status   string `json:"status"`
	Property string `json:"property"`
	Class    string `json:"class"`
	What     string `json:"what"`
	Commit   string `json:"commit,omitempty"`
}

func die2(format string, a ...interface{}) {
	fmt.Fprintf(os.Stderr, "verif: "+format+"\n", a...)
	os.Exit(2)
}

func goEnv() []string {
	env := os.Environ()
	env = append(env, "GOFLAGS=-mod=mod", "GOPROXY=off", "GOSUMDB=off", "GOTOOLCHAIN=local")
	return env
}

func repoRev() string {
	out, _ := exec.Command("git", "-C", repoDir, "rev-parse", "--short", "HEAD").Output()
	rev := strings.TrimSpace(string(out))
	st, _ := exec.Command("git", "-C", repoDir, "status", "--porcelain").Output()
	if len(bytes.TrimSpace(st)) > 0 {
		d, _ := exec.Command("git", "-C", repoDir, "diff", "HEAD").Output()
		h := sha256.Sum256(d)
		rev += fmt.Sprintf("+dirty:%x", h[:4])
	}
	return rev
}

// ---------------------------------------------------------------- build

type built struct {
	worker  string
	scratch string
}

func (b *built) cleanup() {
	if b.scratch != "" {
		os.RemoveAll(b.scratch)
	}
}

func buildWorker(m *meta.Check) *built {
	scratch, err := os.MkdirTemp("", "verif-build-")
	if err != nil {
		die2("mkdtemp: %v", err)
	}
	b := &built{scratch: scratch, worker: filepath.Join(scratch, "worker.test")}
	simDir := filepath.Join(verifDir, "sim")
	// go.sum is the union of the repository's go.sum files plus what the harness itself needs
	refreshGoSum(simDir)
	args := []string{"test", "-c", "-o", b.worker}
	if m.Race {
		args = append(args, "-race")
	}
	if m.Overlay != "" {
		ov, err := makeOverlay(m.Overlay, scratch)
		if err != nil {
			b.cleanup()
			die2("overlay %s: %v", m.Overlay, err)
		}
		args = append(args, "-overlay", ov, "-tags", "verif_"+m.Overlay)
	}
	if repoDir != "/repo" {
		// a scratch copy of the repository (sensitivity tests): same module graph, other paths
		gm, err := os.ReadFile(filepath.Join(simDir, "go.mod"))
		if err != nil {
			die2("%v", err)
		}
		mf := filepath.Join(scratch, "go.mod")
		os.WriteFile(mf, []byte(strings.ReplaceAll(string(gm), "=> /repo", "=> "+repoDir)), 0o644)
		gs, _ := os.ReadFile(filepath.Join(simDir, "go.sum"))
		os.WriteFile(filepath.Join(scratch, "go.sum"), gs, 0o644)
		args = append(args, "-modfile="+mf)
	}
	args = append(args, "./worker/")
	cmd := exec.Command(goBin, args...)
	cmd.Dir = simDir
	cmd.Env = goEnv()
	out, err := cmd.CombinedOutput()
	if err != nil {
		b.cleanup()
		die2("building the worker from %s failed:\n%s", repoDir, out)
	}
	return b
}

func refreshGoSum(simDir string) {
	var files []string
	filepath.Walk(repoDir, func(p string, info os.FileInfo, err error) error {
		if err == nil && !info.IsDir() && info.Name() == "go.sum" {
			files = append(files, p)
		}
		return nil
	})
	files = append(files, filepath.Join(simDir, "go.sum.extra"))
	set := map[string]bool{}
	for _, f := range files {
		b, err := os.ReadFile(f)
		if err != nil {
			continue
		}
		for _, l := range strings.Split(string(b), "\n") {
			if strings.TrimSpace(l) != "" {
				set[l] = true
			}
		}
	}
	var lines []string
	for l := range set {
		lines = append(lines, l)
	}
	sort.Strings(lines)
	want := strings.Join(lines, "\n") + "\n"
	cur, _ := os.ReadFile(filepath.Join(simDir, "go.sum"))
	if string(cur) != want {
		os.WriteFile(filepath.Join(simDir, "go.sum"), []byte(want), 0o644)
	}
}

// ---------------------------------------------------------------- workers

type batchOut struct {
	results   []*RunResult
	crashed   bool
	crashSeed uint64
	stderr    string
	timedOut  bool
}

func runWorker(worker string, job Job, timeout time.Duration, race bool) *batchOut {
	dir, _ := os.MkdirTemp("", "verif-job-")
	defer os.RemoveAll(dir)
	jf := filepath.Join(dir, "job.json")
	jb, _ := json.Marshal(job)
	os.WriteFile(jf, jb, 0o644)
	cmd := exec.Command(worker, "-test.run", "^TestWorker$", "-test.timeout", "0")
	cmd.Env = append(os.Environ(), "VERIF_JOB_FILE="+jf, "GOMAXPROCS="+envOr("VERIF_WORKER_GOMAXPROCS", "2"))
	if race {
		cmd.Env = append(cmd.Env, "GORACE=halt_on_error=1 exitcode=66")
	}
	cmd.Dir = dir
	stdout, _ := cmd.StdoutPipe()
	var stderr bytes.Buffer
	cmd.Stderr = &stderr
	if err := cmd.Start(); err != nil {
		return &batchOut{crashed: true, stderr: err.Error()}
	}
	out := &batchOut{}
	var mu sync.Mutex
	var lastBegin uint64
	var open bool
	var tail []string
	done := make(chan struct{})
	go func() {
		defer close(done)
		sc := bufio.NewScanner(stdout)
		sc.Buffer(make([]byte, 1<<20), 1<<28)
		for sc.Scan() {
			line := sc.Text()
			if !strings.HasPrefix(line, "@@VERIF ") {
				mu.Lock()
				tail = append(tail, line)
				if len(tail) > 400 {
					tail = tail[len(tail)-400:]
				}
				mu.Unlock()
				continue
			}
			rest := line[len("@@VERIF "):]
			sp := strings.IndexByte(rest, ' ')
			kind, payload := rest[:sp], rest[sp+1:]
			switch kind {
			case "begin":
				var b struct {
					Seed uint64 `json:"seed"`
				}
				json.Unmarshal([]byte(payload), &b)
				mu.Lock()
				lastBegin, open = b.Seed, true
				mu.Unlock()
			case "end":
				var r RunResult
				if err := json.Unmarshal([]byte(payload), &r); err == nil {
					mu.Lock()
					out.results = append(out.results, &r)
					open = false
					mu.Unlock()
				}
			}
		}
	}()
	timer := time.AfterFunc(timeout, func() {
		mu.Lock()
		out.timedOut = true
		mu.Unlock()
		cmd.Process.Kill()
	})
	<-done
	err := cmd.Wait()
	timer.Stop()
	mu.Lock()
	defer mu.Unlock()
	if out.timedOut {
		// killed by this driver's own wall-clock limit (the worker's per-run watchdog reports genuine wedges itself,
		// earlier): the unfinished run is simply not counted
		return out
	}
	if err != nil || open {
		if open {
			out.crashed = true
			out.crashSeed = lastBegin
		} else if err != nil && !out.timedOut {
			// failed outside a run (e.g. test framework complaint): treat as tool trouble
			out.crashed = true
			out.crashSeed = 0
		}
		out.stderr = stderr.String() + "\n" + strings.Join(tail, "\n")
	}
	return out
}

// crashClass derives a class key from the stderr of a dead worker.
var reRepoFrame = regexp.MustCompile(`(?m)^(github\.com/IBM/TSS/[^\s(]+(?:\([^)]*\))?[^\s(]*)\(`)

func crashClass(stderr string) (class, summary string) {
	if i := strings.Index(stderr, "VERIF-WEDGE class="); i >= 0 {
		line := stderr[i+len("VERIF-WEDGE class="):]
		if j := strings.IndexByte(line, '\n'); j > 0 {
			line = line[:j]
		}
		return strings.TrimSpace(line), firstLines(stderr[i:], 60)
	}
	if i := strings.Index(stderr, "WARNING: DATA RACE"); i >= 0 {
		blk := stderr[i:]
		if j := strings.Index(blk, "=================="); j > 0 {
			blk = blk[:j]
		}
		// first repo frame of each of the two stacks
		var fr []string
		for _, sec := range strings.Split(blk, "\n\n") {
			if !(strings.Contains(sec, "Write at") || strings.Contains(sec, "Read at") || strings.Contains(sec, "Previous write") || strings.Contains(sec, "Previous read")) {
				continue
			}
			f := "?"
			for _, line := range strings.Split(sec, "\n") {
				line = strings.TrimSpace(line)
				if strings.HasPrefix(line, "github.com/IBM/TSS/") {
					f = strings.TrimPrefix(line, "github.com/IBM/TSS/")
					if k := strings.LastIndex(f, "("); k > 0 {
						f = f[:k]
					}
					break
				}
			}
			fr = append(fr, f)
		}
		sort.Strings(fr)
		return "race/" + strings.Join(fr, "|"), firstLines(blk, 40)
	}
	kind := ""
	msg := ""
	idx := -1
	for _, marker := range []string{"panic: ", "fatal error: "} {
		if i := strings.Index(stderr, marker); i >= 0 && (idx < 0 || i < idx) {
			idx = i
			kind = strings.TrimSuffix(strings.TrimSpace(marker), ":")
		}
	}
	if idx < 0 {
		return "crash/unknown", firstLines(stderr, 30)
	}
	rest := stderr[idx:]
	line := rest
	if j := strings.IndexByte(rest, '\n'); j > 0 {
		line = rest[:j]
	}
	msg = strings.TrimSpace(strings.TrimPrefix(strings.TrimPrefix(line, "panic: "), "fatal error: "))
	msg = strings.TrimSuffix(msg, " [recovered]")
	frame := "?"
	// the first goroutine dump after the panic line belongs to the panicking goroutine
	if m := reRepoFrame.FindStringSubmatch(rest); m != nil {
		frame = strings.TrimPrefix(m[1], "github.com/IBM/TSS/")
	}
	return kind + "/" + frame + "/" + normalise(msg), firstLines(rest, 40)
}

func normalise(v string) string {
	var sb strings.Builder
	prevDigit := false
	for _, r := range v {
		if r >= '0' && r <= '9' {
			if !prevDigit {
				sb.WriteByte('N')
			}
			prevDigit = true
			continue
		}
		prevDigit = false
		sb.WriteRune(r)
	}
	s := sb.String()
	if len(s) > 80 {
		s = s[:80]
	}
	return strings.ReplaceAll(s, " ", "_")
}

func firstLines(s string, n int) string {
	ls := strings.Split(s, "\n")
	if len(ls) > n {
		ls = ls[:n]
	}
	return strings.Join(ls, "\n")
}

// ---------------------------------------------------------------- seeds

func runSeed(base uint64, prop string, i int) uint64 {
	h := sha256.New()
	var b [8]byte
	binary.BigEndian.PutUint64(b[:], base)
	h.Write(b[:])
	h.Write([]byte(prop))
	binary.BigEndian.PutUint64(b[:], uint64(i))
	h.Write(b[:])
	d := h.Sum(nil)
	return binary.BigEndian.Uint64(d[:8]) & ((1 << 53) - 1)
}

// ---------------------------------------------------------------- known findings

func loadKnown() []Known {
	f, err := os.Open(filepath.Join(verifDir, "known_findings.jsonl"))
	if err != nil {
		return nil
	}
	defer f.Close()
	var ks []Known
	sc := bufio.NewScanner(f)
	sc.Buffer(make([]byte, 1<<20), 1<<24)
	for sc.Scan() {
		line := strings.TrimSpace(sc.Text())
		if line == "" || strings.HasPrefix(line, "#") {
			continue
		}
		var k Known
		if json.Unmarshal([]byte(line), &k) == nil {
			ks = append(ks, k)
		}
	}
	return ks
}

func isKnown(ks []Known, prop, class string) *Known {
	for i := range ks {
		if ks[i].Status == "known" && ks[i].Property == prop && ks[i].Class == class {
			return &ks[i]
		}
	}
	return nil
}

// ---------------------------------------------------------------- check

type found struct {
	index int
	res   *RunResult // nil for crashes
	viol  Violation
	crash bool
	seed  uint64
	cfg   json.RawMessage
	acts  []Action
}

type agg struct {
	evals      int
	skipped    int
	fps        map[string]bool
	faults     map[string]int
	probes     map[string]int
	configs    map[string]int
	strategies map[string]int
	simMs      int64
	steps      int64
	deliveries int64
	samples    []interface{}
	seeds      []uint64
}

func cmdCheck(args []string) int {
	if len(args) < 1 {
		die2("usage: verif check <Cxx> [--tier quick|thorough] [--seed N]")
	}
	prop := args[0]
	tier := envOr("VERIF_TIER", "quick")
	seedStr := envOr("VERIF_SEED", "1")
	runsOverride, secsOverride := 0, 0.0
	for i := 1; i < len(args); i++ {
		switch args[i] {
		case "--tier":
			i++
			tier = args[i]
		case "--seed":
			i++
			seedStr = args[i]
		case "--runs":
			i++
			runsOverride, _ = strconv.Atoi(args[i])
		case "--secs":
			i++
			secsOverride, _ = strconv.ParseFloat(args[i], 64)
		}
	}
	if tier != "quick" && tier != "thorough" {
		die2("unknown tier %q", tier)
	}
	baseSeed, err := strconv.ParseUint(seedStr, 10, 64)
	if err != nil {
		// any string is accepted as a seed
		h := sha256.Sum256([]byte(seedStr))
		baseSeed = binary.BigEndian.Uint64(h[:8]) & ((1 << 53) - 1)
	}
	m := meta.Checks[prop]
	if m == nil {
		die2("no check for property %s", prop)
	}
	start := time.Now()
	runs, secs := m.QuickRuns, m.QuickSecs
	if tier == "thorough" {
		runs, secs = m.ThorRuns, m.ThorSecs
	}
	if runsOverride > 0 {
		runs = runsOverride
	}
	if secsOverride > 0 {
		secs = secsOverride
	}
	fmt.Printf("verif: property=%s tier=%s VERIF_SEED=%d target_runs=%d budget=%.0fs repo=%s\n", prop, tier, baseSeed, runs, secs, repoRev())
	b := buildWorker(m)
	defer b.cleanup()
	fmt.Printf("verif: worker built in %.1fs\n", time.Since(start).Seconds())

	nw := runtime.NumCPU()
	if v, _ := strconv.Atoi(os.Getenv("VERIF_WORKERS")); v > 0 {
		nw = v
	}
	a := &agg{fps: map[string]bool{}, faults: map[string]int{}, probes: map[string]int{}, configs: map[string]int{}, strategies: map[string]int{}}
	var founds []*found
	classesSeen := map[string]bool{}
	crashCount := map[string]int{}
	abort := false // one crash class seen many times: exploring further only repeats it (a wedge costs its whole watchdog period)
	var mu sync.Mutex
	next := 0
	deadline := start.Add(time.Duration(secs * float64(time.Second)))
	exploreStart := time.Now()
	var wg sync.WaitGroup
	toolTrouble := ""
	for wi := 0; wi < nw; wi++ {
		wg.Add(1)
		go func() {
			defer wg.Done()
			for {
				mu.Lock()
				if next >= runs || time.Now().After(deadline) || len(classesSeen) >= 6 || abort {
					mu.Unlock()
					return
				}
				lo := next
				hi := lo + m.Batch
				if hi > runs {
					hi = runs
				}
				next = hi
				mu.Unlock()
				var seeds []uint64
				for i := lo; i < hi; i++ {
					seeds = append(seeds, runSeed(baseSeed, prop, i))
				}
				first := lo
				for len(seeds) > 0 {
					remain := time.Until(deadline).Seconds()
					if remain < 1 {
						remain = 1
					}
					out := runWorker(b.worker, Job{Property: prop, Tier: tier, Seeds: seeds, First: first, Budget: remain, RunLimitS: m.RunLimitS}, time.Duration(remain+120+m.RunLimitS)*time.Second, m.Race)
					mu.Lock()
					for _, r := range out.results {
						a.add(r)
						for _, v := range r.Violations {
							if !classesSeen[v.Class] {
								classesSeen[v.Class] = true
								founds = append(founds, &found{index: r.Index, res: r, viol: v, seed: r.Seed, cfg: r.Cfg, acts: r.Actions})
							}
						}
					}
					mu.Unlock()
					if !out.crashed {
						if out.timedOut {
							mu.Lock()
							toolTrouble = "worker exceeded its wall-clock watchdog"
							mu.Unlock()
						}
						break
					}
					if out.crashSeed == 0 {
						mu.Lock()
						toolTrouble = "worker failed outside a run:\n" + firstLines(out.stderr, 30)
						mu.Unlock()
						break
					}
					class, _ := crashClass(out.stderr)
					cidx := first
					for i, s := range seeds {
						if s == out.crashSeed {
							cidx = first + i
						}
					}
					mu.Lock()
					if !classesSeen[class] {
						classesSeen[class] = true
						founds = append(founds, &found{index: cidx, crash: true, seed: out.crashSeed, viol: Violation{Invariant: prop + "/crash", Class: class, Detail: firstLines(out.stderr, 60)}})
					}
					a.evals++
					crashCount[class]++
					if crashCount[class] >= 8 {
						abort = true
					}
					stop := abort || time.Now().After(deadline)
					mu.Unlock()
					if stop {
						break
					}
					// continue the batch after the crashing seed
					idx := -1
					for i, s := range seeds {
						if s == out.crashSeed {
							idx = i
						}
					}
					if idx < 0 {
						break
					}
					seeds = seeds[idx+1:]
					first += idx + 1
				}
			}
		}()
	}
	wg.Wait()
	exploreSecs := time.Since(exploreStart).Seconds()
	if toolTrouble != "" {
		writeEvidence(m, prop, tier, baseSeed, a, 0, nil, time.Since(start).Seconds(), exploreSecs)
		die2("%s", toolTrouble)
	}

	// confirm, minimise, report
	known := loadKnown()
	exit := 0
	var knownHit []string
	nviol := 0
	sort.Slice(founds, func(i, j int) bool { return founds[i].viol.Class < founds[j].viol.Class })
	reported := map[string]bool{}
	for _, f := range founds {
		rp, ok := confirmAndMinimise(b, m, prop, tier, f)
		if !ok {
			fmt.Printf("verif: violation class %s (seed %d) did not reproduce on re-execution; reporting as tool trouble\n", f.viol.Class, f.seed)
			if exit == 0 {
				exit = 2
			}
			continue
		}
		if reported[rp.Violation.Class] {
			continue
		}
		reported[rp.Violation.Class] = true
		if k := isKnown(known, prop, rp.Violation.Class); k != nil {
			fmt.Printf("KNOWN-FINDING: property=%s %s [%s]\n", prop, k.What, k.Class)
			knownHit = append(knownHit, k.Class)
			continue
		}
		ch := sha256.Sum256([]byte(rp.Violation.Class))
		path := filepath.Join(outDir, "replays", fmt.Sprintf("%s-%d-%x.json", prop, f.seed, ch[:3]))
		os.MkdirAll(filepath.Dir(path), 0o755)
		jb, _ := json.MarshalIndent(rp, "", " ")
		os.WriteFile(path, jb, 0o644)
		fmt.Printf("verif: %s seed=%d class=%s\n        %s\n", rp.Violation.Invariant, f.seed, rp.Violation.Class, strings.ReplaceAll(firstLines(rp.Violation.Detail, 12), "\n", "\n        "))
		fmt.Printf("VIOLATION property=%s replay=%s\n", prop, path)
		nviol++
		if exit == 0 || exit == 2 {
			// a confirmed violation outranks another class that did not reproduce
			exit = 1
		}
	}
	nd := writeEvidence(m, prop, tier, baseSeed, a, nviol, knownHit, time.Since(start).Seconds(), exploreSecs)
	fmt.Printf("verif: %d runs (%d skipped) in %.1fs, %d distinct non-trivial schedules, %.0f runs/hour, %.0fs simulated, faults=%v\n",
		a.evals, a.skipped, exploreSecs, nd, float64(a.evals)/exploreSecs*3600, float64(a.simMs)/1000, a.faults)
	if exit == 0 && nd < m.MinNontrivial {
		fmt.Fprintf(os.Stderr, "verif: vacuity guard: only %d distinct non-trivial runs (need %d)\n", nd, m.MinNontrivial)
		return 2
	}
	return exit
}

func (a *agg) add(r *RunResult) {
	a.evals++
	if r.Skipped {
		a.skipped++
	}
	if r.Nontrivial {
		a.fps[r.Fingerprint] = true
	}
	for k, v := range r.Faults {
		a.faults[k] += v
	}
	for k, v := range r.Probes {
		a.probes[k] += v
	}
	a.configs[r.ConfigKey]++
	a.strategies[r.Strategy]++
	a.simMs += r.SimMs
	a.steps += int64(r.Steps)
	a.deliveries += int64(r.Deliveries)
	if len(a.samples) < 4 && r.Nontrivial {
		a.samples = append(a.samples, map[string]interface{}{"seed": r.Seed, "config": r.ConfigKey, "strategy": r.Strategy, "cfg": r.Cfg, "trace": r.Sample, "steps": r.Steps})
	}
	if len(a.seeds) < 8 {
		a.seeds = append(a.seeds, r.Seed)
	}
}

func writeEvidence(m *meta.Check, prop, tier string, seed uint64, a *agg, nviol int, knownHit []string, wall, exploreSecs float64) int {
	nd := len(a.fps)
	samples := a.samples
	if len(samples) == 0 {
		samples = []interface{}{"no non-trivial run in this batch"}
	}
	if knownHit == nil {
		knownHit = []string{}
	}
	rph := 0.0
	if exploreSecs > 0 {
		rph = float64(a.evals) / exploreSecs * 3600
	}
	ev := map[string]interface{}{
		"property_id": prop,
		"tier":        tier,
		"seed":        seed,
		"level":       m.Level,
		"wall_s":      wall,
		"violations":  nviol,
		"assumptions": m.Assume,
		"coverage": map[string]interface{}{
			"evaluations":         a.evals,
			"distinct_nontrivial": nd,
			"rule":                m.Rule,
			"samples":             samples,
			"runs_per_hour":       rph,
			"seeds_per_hour":      rph,
			"sim_time_s":          float64(a.simMs) / 1000,
			"sim_steps":           a.steps,
			"deliveries":          a.deliveries,
			"faults":              a.faults,
			"probes":              a.probes,
			"configs":             a.configs,
			"strategies":          a.strategies,
			"components":          map[string]interface{}{"real": m.Real, "stub": m.Stub},
			"engine":              m.Engine,
			"first_run_seeds":     a.seeds,
			"repo_rev":            repoRev(),
			"known_findings_hit":  knownHit,
			"skipped_runs":        a.skipped,
		},
	}
	os.MkdirAll(filepath.Join(outDir, "evidence"), 0o755)
	jb, _ := json.MarshalIndent(ev, "", " ")
	os.WriteFile(filepath.Join(outDir, "evidence", prop+".json"), jb, 0o644)
	return nd
}

// ---------------------------------------------------------------- confirm + minimise

type evalOut struct {
	viol     *Violation
	res      *RunResult
	crash    bool
	acts     []Action
	cfg      json.RawMessage
	diverged string
}

// evalSpec executes one explicit run in a fresh worker and reports whether a
// violation of class `class` occurs ("" = any).
func evalSpec(b *built, m *meta.Check, spec RunSpec, class string, wantTrace bool) *evalOut {
	job := Job{Property: spec.Property, Tier: spec.Tier, Replay: &spec, RunLimitS: m.RunLimitS}
	var tf string
	if wantTrace {
		f, _ := os.CreateTemp("", "verif-trace-")
		tf = f.Name()
		f.Close()
		defer os.Remove(tf)
		job.TraceFile = tf
	}
	evalTimeout := 90 * time.Second
	if m.RunLimitS > 0 {
		evalTimeout = time.Duration(m.RunLimitS+60) * time.Second
	}
	out := runWorker(b.worker, job, evalTimeout, m.Race)
	eo := &evalOut{}
	if out.crashed {
		c, sum := crashClass(out.stderr)
		eo.crash = true
		if class == "" || c == class {
			eo.viol = &Violation{Invariant: spec.Property + "/crash", Class: c, Detail: sum}
		}
		if tf != "" {
			eo.cfg, eo.acts = readTrace(tf)
		}
		return eo
	}
	if len(out.results) == 0 {
		return eo
	}
	r := out.results[0]
	eo.res = r
	eo.acts = r.Actions
	eo.cfg = r.Cfg
	eo.diverged = r.Diverged
	for i := range r.Violations {
		if class == "" || r.Violations[i].Class == class {
			eo.viol = &r.Violations[i]
			break
		}
	}
	return eo
}

func readTrace(path string) (json.RawMessage, []Action) {
	b, err := os.ReadFile(path)
	if err != nil {
		return nil, nil
	}
	lines := strings.Split(strings.TrimSpace(string(b)), "\n")
	if len(lines) == 0 || lines[0] == "" {
		return nil, nil
	}
	var acts []Action
	for _, l := range lines[1:] {
		var a Action
		if json.Unmarshal([]byte(l), &a) == nil {
			acts = append(acts, a)
		}
	}
	return json.RawMessage(lines[0]), acts
}

func confirmAndMinimise(b *built, m *meta.Check, prop, tier string, f *found) (*Replay, bool) {
	class := f.viol.Class
	// 1. re-execute the seed alone (random scheduler) with incremental tracing
	eo := evalSpec(b, m, RunSpec{Property: prop, Seed: f.seed, Index: f.index, Tier: tier}, class, true)
	// runs with concurrent dispatch are order-dependent inside a step: give them a few attempts
	for try := 0; eo.viol == nil && try < 4; try++ {
		eo = evalSpec(b, m, RunSpec{Property: prop, Seed: f.seed, Index: f.index, Tier: tier}, class, true)
	}
	if eo.viol == nil {
		// crash classes can differ slightly between executions; accept any crash for a crash
		if f.crash {
			eo = evalSpec(b, m, RunSpec{Property: prop, Seed: f.seed, Index: f.index, Tier: tier}, "", true)
			if eo.viol != nil {
				class = eo.viol.Class
			}
		}
		// a crash under concurrent dispatch (race report, panic that needs two goroutines of one step to meet) may
		// recur in only a few percent of the executions of its seed: re-execute in parallel, any crash counts
		if eo.viol == nil && f.crash {
			for round := 0; round < 4 && eo.viol == nil; round++ {
				par := runtime.NumCPU()
				outs := make([]*evalOut, par)
				var wg sync.WaitGroup
				for i := 0; i < par; i++ {
					wg.Add(1)
					go func(i int) {
						defer wg.Done()
						outs[i] = evalSpec(b, m, RunSpec{Property: prop, Seed: f.seed, Index: f.index, Tier: tier}, "", true)
					}(i)
				}
				wg.Wait()
				for _, o := range outs {
					if o.viol != nil && (eo.viol == nil || o.viol.Class == f.viol.Class) {
						eo = o
						class = o.viol.Class
					}
				}
			}
		}
		if eo.viol == nil {
			return nil, false
		}
	}
	cfg, acts := eo.cfg, eo.acts
	rp := &Replay{Property: prop, Engine: m.Engine, Seed: f.seed, Tier: tier, Cfg: cfg, Actions: acts, Violation: *eo.viol, Crash: eo.crash, OrigLen: len(acts), RepoRev: repoRev()}
	if cfg == nil {
		rp.Note = "configuration regenerated from the seed on replay"
	}
	if isKnown(loadKnown(), prop, rp.Violation.Class) != nil {
		return rp, true // a listed finding needs no minimised replay
	}
	// 2. the explicit action list must reproduce on its own
	e2 := evalSpec(b, m, RunSpec{Property: prop, Seed: f.seed, Index: f.index, Tier: tier, Cfg: cfg, Actions: acts, Scripted: true, Lenient: true}, class, false)
	if e2.viol == nil {
		rp.Note += "; explicit action list did not reproduce, replay re-runs the seeded scheduler"
		rp.Actions = nil
		return rp, true
	}
	// 3. delta debugging over the action list
	budget := 60 * time.Second
	if tier == "thorough" {
		budget = 180 * time.Second
	}
	if v := os.Getenv("VERIF_MINIMISE_SECS"); v != "" {
		s, _ := strconv.Atoi(v)
		budget = time.Duration(s) * time.Second
	}
	deadline := time.Now().Add(budget)
	test := func(cand []Action) bool {
		e := evalSpec(b, m, RunSpec{Property: prop, Seed: f.seed, Index: f.index, Tier: tier, Cfg: cfg, Actions: cand, Scripted: true, Lenient: true}, class, false)
		return e.viol != nil
	}
	min := ddmin(acts, test, deadline)
	// final confirmation in a fresh process, strict about nothing but the class
	e3 := evalSpec(b, m, RunSpec{Property: prop, Seed: f.seed, Index: f.index, Tier: tier, Cfg: cfg, Actions: min, Scripted: true, Lenient: true}, class, false)
	if e3.viol != nil {
		rp.Actions = min
		if rp.Actions == nil {
			rp.Actions = []Action{}
		}
		rp.Violation = *e3.viol
		rp.Minimised = true
	}
	return rp, true
}

// ddmin removes chunks of actions while test keeps failing; candidates of one
// granularity are evaluated in parallel.
func ddmin(acts []Action, test func([]Action) bool, deadline time.Time) []Action {
	cur := acts
	n := 2
	par := runtime.NumCPU()
	for len(cur) >= 1 && time.Now().Before(deadline) {
		if n > len(cur) {
			n = len(cur)
		}
		if n < 1 {
			break
		}
		chunk := (len(cur) + n - 1) / n
		type cand struct {
			acts []Action
			ok   bool
		}
		var cands []*cand
		for i := 0; i < len(cur); i += chunk {
			j := i + chunk
			if j > len(cur) {
				j = len(cur)
			}
			c := append(append([]Action{}, cur[:i]...), cur[j:]...)
			cands = append(cands, &cand{acts: c})
		}
		reduced := false
		for base := 0; base < len(cands) && !reduced; base += par {
			var wg sync.WaitGroup
			end := base + par
			if end > len(cands) {
				end = len(cands)
			}
			for _, c := range cands[base:end] {
				wg.Add(1)
				go func(c *cand) { defer wg.Done(); c.ok = test(c.acts) }(c)
			}
			wg.Wait()
			for _, c := range cands[base:end] {
				if c.ok {
					cur = c.acts
					if n > 2 {
						n--
					}
					reduced = true
					break
				}
			}
			if time.Now().After(deadline) {
				break
			}
		}
		if !reduced {
			if chunk <= 1 {
				break
			}
			n *= 2
		}
		if len(cur) == 0 {
			break
		}
	}
	return cur
}

// ---------------------------------------------------------------- replay

func cmdReplay(args []string) int {
	if len(args) < 1 {
		die2("usage: verif replay <file>")
	}
	raw, err := os.ReadFile(args[0])
	if err != nil {
		die2("%v", err)
	}
	var rp Replay
	if err := json.Unmarshal(raw, &rp); err != nil {
		die2("bad replay file: %v", err)
	}
	m := meta.Checks[rp.Property]
	if m == nil {
		die2("no check for property %s", rp.Property)
	}
	b := buildWorker(m)
	defer b.cleanup()
	spec := RunSpec{Property: rp.Property, Seed: rp.Seed, Tier: rp.Tier, Cfg: rp.Cfg}
	if rp.Actions != nil {
		spec.Actions = rp.Actions
		spec.Scripted = true
		spec.Lenient = rp.Minimised // a minimised list contains actions that are skipped by design
	}
	times := 1
	if v, _ := strconv.Atoi(os.Getenv("VERIF_REPLAY_TIMES")); v > 0 {
		times = v
	}
	hit := 0
	var last *evalOut
	for i := 0; i < times; i++ {
		last = evalSpec(b, m, spec, rp.Violation.Class, false)
		if last.viol != nil {
			hit++
		}
	}
	if last.diverged != "" && hit == 0 {
		fmt.Printf("verif: replay diverged: %s\n", last.diverged)
		return 2
	}
	fmt.Printf("verif: replay of %s: reproduced %d of %d (class %s)\n", args[0], hit, times, rp.Violation.Class)
	if hit > 0 {
		fmt.Printf("        %s\n", strings.ReplaceAll(firstLines(last.viol.Detail, 12), "\n", "\n        "))
		fmt.Printf("VIOLATION property=%s replay=%s\n", rp.Property, args[0])
		return 1
	}
	return 0
}

func main() {
	if len(os.Args) < 2 {
		die2("usage: verif check|replay|selftest|baseline-off ...")
	}
	switch os.Args[1] {
	case "check":
		os.Exit(cmdCheck(os.Args[2:]))
	case "replay":
		os.Exit(cmdReplay(os.Args[2:]))
	case "selftest":
		os.Exit(cmdSelftest(os.Args[2:]))
	case "baseline-off":
		os.Exit(cmdBaseline())
	default:
		die2("unknown command %s", os.Args[1])
	}
}
