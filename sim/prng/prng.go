// Package prng is the single source of randomness of the simulator: a
// splittable splitmix64 generator. Every choice of a run (configuration,
// schedule, faults, payloads, the crypto/rand stream) is drawn from a stream
// derived from VERIF_SEED by labels, so that editing one stream (e.g. a
// minimised schedule) does not shift another.
package prng

import (
	"crypto/sha256"
	"encoding/binary"
	"sync/atomic"
)

// Heartbeat is incremented whenever a simulation has reached another quiescent point. The worker's watchdog tells a
// run that is merely slow (it keeps reaching quiescent points) from one that is wedged (it never does again).
var Heartbeat atomic.Int64

type Rand struct {
	s uint64
}

func New(seed uint64) *Rand { return &Rand{s: seed} }

// Sub derives an independent stream from the *initial* identity of r and a label;
// it does not consume from r.
func Derive(seed uint64, label string) *Rand {
	h := sha256.New()
	var b [8]byte
	binary.BigEndian.PutUint64(b[:], seed)
	h.Write(b[:])
	h.Write([]byte(label))
	d := h.Sum(nil)
	return &Rand{s: binary.BigEndian.Uint64(d[:8])}
}

func (r *Rand) Uint64() uint64 {
	r.s += 0x9e3779b97f4a7c15
	z := r.s
	z = (z ^ (z >> 30)) * 0xbf58476d1ce4e5b9
	z = (z ^ (z >> 27)) * 0x94d049bb133111eb
	return z ^ (z >> 31)
}

func (r *Rand) Intn(n int) int {
	if n <= 0 {
		return 0
	}
	return int(r.Uint64() % uint64(n))
}

// Range returns a value in [lo, hi].
func (r *Rand) Range(lo, hi int) int {
	if hi <= lo {
		return lo
	}
	return lo + r.Intn(hi-lo+1)
}

func (r *Rand) Float64() float64 { return float64(r.Uint64()>>11) / float64(1<<53) }

func (r *Rand) Bool(p float64) bool { return r.Float64() < p }

func (r *Rand) Bytes(n int) []byte {
	b := make([]byte, n)
	for i := 0; i < n; i += 8 {
		v := r.Uint64()
		for j := 0; j < 8 && i+j < n; j++ {
			b[i+j] = byte(v >> (8 * j))
		}
	}
	return b
}

func (r *Rand) Read(p []byte) (int, error) {
	copy(p, r.Bytes(len(p)))
	return len(p), nil
}

func (r *Rand) Perm(n int) []int {
	p := make([]int, n)
	for i := range p {
		p[i] = i
	}
	for i := n - 1; i > 0; i-- {
		j := r.Intn(i + 1)
		p[i], p[j] = p[j], p[i]
	}
	return p
}

// Hash64 is a convenience for content-derived deterministic decisions.
func Hash64(parts ...[]byte) uint64 {
	h := sha256.New()
	for _, p := range parts {
		var b [4]byte
		binary.BigEndian.PutUint32(b[:], uint32(len(p)))
		h.Write(b[:])
		h.Write(p)
	}
	d := h.Sum(nil)
	return binary.BigEndian.Uint64(d[:8])
}
