// Package meta describes the checks to the driver without importing any code
// under test (so the driver binary never goes stale with /repo).
package meta

type Check struct {
	ID            string
	Engine        string // netsim | coop | connsim | box
	Level         string // exploration | fault_enumeration
	Race          bool   // build the worker with -race
	Overlay       string // "", "coop", "connsim"
	Real          []string
	Stub          []string
	Rule          string
	Assume        []string
	QuickRuns     int     // target number of runs, quick tier
	QuickSecs     float64 // wall-clock budget for the exploration phase, quick tier
	ThorRuns      int
	ThorSecs      float64
	RunLimitS     float64 // wall-clock watchdog per run (default 60 s)
	Batch         int     // seeds per worker process
	MinNontrivial int     // vacuity guard: fewer distinct non-trivial runs than this => exit 2
}

var Checks = map[string]*Check{}

func Register(c *Check) {
	if c.Batch == 0 {
		c.Batch = 40
	}
	if c.MinNontrivial == 0 {
		c.MinNontrivial = 2
	}
	if c.Level == "" {
		c.Level = "exploration"
	}
	Checks[c.ID] = c
}

var e1Stub = []string{"transport (simulator-owned per-link FIFO queues)", "logger (counting stub)", "crypto/rand.Reader (seeded stream)"}

func init() {
	Register(&Check{
		ID: "C01", Engine: "netsim",
		Real:      []string{"threshold.Scheme via LoudScheme/SilentScheme", "disc.Member", "disc.SilentSynchronizer", "rbc.Receiver", "msg.Box", "mpc/bls TBLS DKG, Sign, Verifier (real pairing crypto)"},
		Stub:      e1Stub,
		Rule:      "one case = one seeded run (n, t, mode, dispatch, schedule) of a full BLS DKG followed by the documented sign/aggregate/verify flow over every subset of size >= t for 5 digests; distinct = distinct schedule fingerprint; non-trivial = at least one cross-link delivery-order inversion relative to send order",
		Assume:    []string{"links are reliable and FIFO per direction", "identity node-id/party-id map, ids < 256 (C06/C13 cover the rest)"},
		QuickRuns: 4000, QuickSecs: 90, ThorRuns: 300000, ThorSecs: 900, Batch: 25, RunLimitS: 600,
	})
	Register(&Check{
		ID: "C05", Engine: "netsim",
		Real:      []string{"mpc/bls TBLS.KeyGen/OnMsg (honest parties and the culprit's own backend)", "mpc/ps TPS.KeyGen/OnMsg", "threshold.Scheme", "rbc.Receiver", "disc.Member", "disc.SilentSynchronizer", "msg.Box", "bls.Verifier / ps.Prover / ps.Verifier for the post-run oracle"},
		Stub:      append([]string{"the culprit's NIC (adversary rewriting its DKG messages per destination)", "transparent recording proxy around honest backends (disclosure-order monitor)"}, e1Stub...),
		Rule:      "run i walks the catalogue systematically: deviation = catalogue[i mod 12] (none, off-polynomial shares, reveal != commitment, consistently committed off-polynomial key, equivocated commit / reveal, malformed (8 mutations incl. wrong arity), duplicate, early reveal, second commit, late share, withhold) x victim set = the (i div 12)-th non-empty subset of the honest parties; n, t (incl. t = n), culprit, backend (BLS/PS), mode and schedule are drawn; distinct = distinct (deviation, culprit, victims, schedule fingerprint); non-trivial = the deviation actually altered, added or removed a message (or the control case 'none')",
		Assume:    []string{"links are reliable FIFO", "one deviating participant per run; it never spoofs an honest source"},
		QuickRuns: 6000, QuickSecs: 90, ThorRuns: 300000, ThorSecs: 900, Batch: 20,
	})
	Register(&Check{
		ID: "C07", Engine: "netsim",
		Real:      []string{"disc.Member (Synchronize, HandleMessage, tag/view encoding) - one instance per honest member, several topics concurrently"},
		Stub:      []string{"transport (simulator-owned per-link FIFO queues)", "logger (counting stub)", "Byzantine configured members (harness code fabricating membership/query/response messages with valid and foreign tags and lying views)"},
		Rule:      "one case = one seeded universe of 3..6 (thorough 8) members with ids over the 16-bit range, 1..3 topics with drawn invoker subsets and expected counts (exact, one short, one over, room for Byzantine members), 0..n-2 Byzantine members injecting up to 25 fabricated messages, one delivery schedule; distinct = distinct schedule fingerprint; non-trivial = at least one honest completion and (an injection fired, or several topics ran concurrently, or an id >= 256 took part)",
		Assume:    []string{"links are reliable FIFO", "Byzantine members are configured members (they can compute every tag, as the HMAC key is the topic)", "the transport authenticates the source"},
		QuickRuns: 20000, QuickSecs: 60, ThorRuns: 800000, ThorSecs: 900,
	})
	Register(&Check{
		ID: "C08", Engine: "netsim",
		Real:      []string{"threshold.Scheme via LoudScheme/SilentScheme", "disc.Member", "disc.SilentSynchronizer", "rbc.Receiver", "msg.Box", "mpc/ps TPS DKG + Sign, Prover (Blind/UnBlind/ProveKnowledgeOfSignature), Verifier (real pairing crypto)"},
		Stub:      e1Stub,
		Rule:      "one case = one seeded run (n, t, message length L, mode, schedule) of a full PS DKG through the real stack, followed by the documented flow for 4 message vectors (mixed empty/equal/1-byte/long/random entries, all-equal, all-empty) and every signer subset of size >= t; the schedule dimension concerns the DKG only, the rest is a seeded input sweep; distinct = distinct schedule fingerprint; non-trivial = at least one cross-link delivery-order inversion during the DKG",
		Assume:    []string{"links are reliable FIFO", "party ids 1..n (the documented usage: the prover uses the party id as evaluation point)"},
		QuickRuns: 2500, QuickSecs: 90, ThorRuns: 200000, ThorSecs: 900, Batch: 12,
	})
	Register(&Check{
		ID: "C10", Engine: "netsim",
		Real:      []string{"threshold.Scheme dispatcher (HandleMessage, handleSync, handleMPC, ack decoding)", "msg.Box.HandleMessage", "disc.Member.HandleMessage", "rbc.Receiver.Receive", "mpc/bls and mpc/ps ClassifyMsg/OnMsg", "bls.Verifier.Init/Verify/AggregateSignatures, ps.TPS.Sign, ps.Verifier.Init/Verify, ps.Prover.Init/UnBlind (entry-point part)"},
		Stub:      append([]string{"MPC backend (scripted) in part of the runs", "garbage source: structure-aware mutations of real in-flight messages + raw random bytes, sent by Byzantine participants, a configured outsider and an unknown id"}, e1Stub...),
		Rule:      "one case = one seeded session (scripted/BLS/PS, loud/silent, KeyGen/Sign, n=2..4) with 20..160 garbage messages (15 mutation kinds: every truncation length, extension, empty, nil, type, 7 topic shapes incl. nil and <8 bytes, acknowledgement fields incl. digest lengths 0..64, first/second payload byte sweep, raw random, bit flip, synchroniser tails of every length around the tag, oversized view) injected at seeded points in the states idle / synchronising / protocol / finished; in mode 'foreign' (other topics, non-participants) the session must also complete; 15% of the runs additionally sweep ~600 DER-structure-aware and byte-level mutants of valid public parameters, signatures, blinded requests, proofs and partial signatures through the client-facing entry points (input mutation, not schedule exploration); distinct = distinct schedule fingerprint; non-trivial = garbage was injected while a session was synchronising or running",
		Assume:    []string{"the transport authenticates the source (garbage never carries an honest participant's id unless that participant is the Byzantine one of the run)", "the handshake surface of net is covered by the connsim engine (C16/C17), not here"},
		QuickRuns: 2500, QuickSecs: 100, ThorRuns: 500000, ThorSecs: 1200, Batch: 30,
	})
	Register(&Check{
		ID: "C11", Engine: "netsim", Level: "fault_enumeration",
		Real:      []string{"threshold.Scheme (KeyGen/Sign entry paths, result/ctx select)", "disc.Member", "disc.SilentSynchronizer", "rbc.Receiver", "msg.Box", "mpc/bls TBLS.KeyGen", "mpc/ps TPS.KeyGen"},
		Stub:      append([]string{"MPC backend (scripted, lock-step rounds) in part of the runs"}, e1Stub...),
		Rule:      "runs 0..N-1 enumerate, on the canonical schedule, for 8 base sessions (scripted/BLS/PS x loud/silent x KeyGen, scripted Sign) every peer P and every k: P silent after its k-th outgoing message (k=0: never shows up), and every single withheld message (enumeration indices beyond the traffic of the session are skipped); further runs draw crash point / withheld message / cancellation step / unusable stored data under seeded schedules for n=2..4; distinct = distinct (base, fault, position, outcome, schedule fingerprint); non-trivial = the fault fired while session traffic was in flight",
		Assume:    []string{"links are reliable FIFO until the fault", "a crashed node's own call is not judged"},
		QuickRuns: 12000, QuickSecs: 100, ThorRuns: 600000, ThorSecs: 900, Batch: 60,
	})
	Register(&Check{
		ID: "C12", Engine: "netsim",
		Real:      []string{"threshold.Scheme (handler tables, admission, cleanup paths of KeyGen/Sign)", "disc.Member", "disc.SilentSynchronizer", "rbc.Receiver", "msg.Box (startedSending across sessions)"},
		Stub:      append([]string{"MPC backend (scripted; hand-offs attributed to the emitting instance through unique payload bodies)", "outsider adversary (non-participants re-send copies of session traffic)"}, e1Stub...),
		Rule:      "one case = one seeded history of 2..6 phases over 1..3 topics (successful, peer-missing, cancelled, overlapping same-topic, concurrent different-topic Sign; successful and peer-missing KeyGen; a retry on the topic of an earlier failure), network drained between phases, seeded schedule inside each phase; distinct = distinct (history, schedule fingerprint); non-trivial = at least one failed/cancelled/overlapping session precedes a later phase",
		Assume:    []string{"links are reliable FIFO", "a retry starts after the traffic of the earlier session has been delivered (topic reuse while old traffic is in flight is outside the statement)"},
		QuickRuns: 12000, QuickSecs: 60, ThorRuns: 500000, ThorSecs: 900,
	})
	Register(&Check{
		ID: "C14", Engine: "coop", Overlay: "coop",
		Real:      []string{"msg.Box (HandleMessage, storeOrForward, Send, getOrCreateMessagesByTopic, markTopicForSender, maybeGC, clock goroutine) with the imports sync and sync/atomic redirected to scheduler-aware shims by go build -overlay; no other token of the package changes"},
		Stub:      []string{"callers (1..3 receiving tasks = one goroutine per peer connection, 1..3 sending tasks = protocol goroutines)", "MessageHandler (recording; in 30% of the runs it calls Box.Send itself, as the orchestrator does when it acknowledges)", "ForwardSend (no-op)", "ticker (simulator-owned channel through the NewTicker seam)", "logger (counting stub)"},
		Rule:      "one case = one seeded workload (1..3 topics, 1..3 senders with 1..4 messages each, 1..3 sending tasks, 0..2 clock ticks) and one seeded interleaving at the granularity of every Lock/Unlock/RLock/RUnlock/atomic/Once operation of the real code (random walk, PCT d=1..3, delay-bounded); distinct = distinct sequence of (task, operation) choices; non-trivial = at least one Send task ran between two operations of a receiving task",
		Assume:    []string{"senders stay within the documented per-sender limits", "the scheduler's lock model admits exactly the interleavings of Go's sync.RWMutex in which a parked task has not yet executed its pending operation"},
		QuickRuns: 100000, QuickSecs: 60, ThorRuns: 4000000, ThorSecs: 900, Batch: 400,
	})
	Register(&Check{
		ID: "C15", Engine: "box",
		Real:      []string{"msg.Box (storeOrForward, limits, markTopicForSender, Send, maybeGC, mark, sweep, clock goroutine) with its real ticker and time.Now on the simulated clock"},
		Stub:      []string{"callers (one sequential history)", "MessageHandler (recording)", "ForwardSend (no-op)", "logger (counting stub)"},
		Rule:      "one case = one seeded history of 20..250 (thorough ..2500) operations recv(sender, topic, burst 1..110) / send(topic) / idle(0..expiry+4 sweeps) on a Box with MaxInFlightTopicsBySender 1..6, GCSweep 1/5/20 s and GCExpire 2..6 sweeps (production values in part of the thorough runs), judged operation by operation by a reference model with tolerances (limit +-1; data surely alive before expiry - 1 sweep, surely discarded after expiry + 2 sweeps and three later sends in distinct sweep periods, either in between); distinct = distinct (configuration, history); non-trivial = at least one buffered message was released by a start and at least one idle period occurred",
		Assume:    []string{"single caller (interleavings are C14's subject)", "the GC is driven by Send, so 'eventually discarded' is judged only after later sends"},
		QuickRuns: 30000, QuickSecs: 60, ThorRuns: 1000000, ThorSecs: 900, Batch: 150,
	})
	connReal := []string{"net.go: ServiceConnections, handleConn, authenticateConnection, readMsg, Handshake.Read/Write, SocketRemoteParties.Send, remoteParty.sendMessages/maybeConnect/send (tls.Dial call redirected to the simulator's dialer by go build -overlay)", "crypto/tls 1.3 (real handshakes, records, exporter)", "testutil/tlsgen (CA, server and identity certificates)"}
	connStub := []string{"byte-stream network (in-memory pipes; the simulator releases chunks at seeded boundaries, stalls, flips bits, resets, refuses dials)", "message consumers (recording)", "logger (counting stub)"}
	Register(&Check{
		ID: "C16", Engine: "connsim", Overlay: "connsim", Real: connReal, Stub: append([]string{"adversarial clients (harness code: genuine TLS handshake, then a handshake variant and a marker frame)", "reference authentication model (harness, written from the statement)"}, connStub...),
		Rule:      "one case = one seeded run of 3..4 real transport parties exchanging honest traffic while 2..6 adversarial connections arrive at seeded points; the 27 handshake variants (valid, old timestamp, binding flipped / empty / of another connection / replayed, identity of another node / unregistered / empty / with leading or trailing junk, signature by another node / unregistered key / over another binding / over another domain / missing / garbage, domain altered or differently signed, RSA / Ed25519 / P-384 identities, truncation at a seeded point, short / long length prefix, noise, trailing bytes) are walked by the run index; byte streams are released in seeded chunks; distinct = distinct sequence of (pipe, event) choices; non-trivial = at least one adversarial connection was rejected while honest traffic was delivered",
		Assume:    []string{"the adversary cannot break TLS or ECDSA; it may hold certificates of the same CA and may be a registered node itself"},
		QuickRuns: 3000, QuickSecs: 100, ThorRuns: 120000, ThorSecs: 1200, Batch: 15,
	})
	Register(&Check{
		ID: "C17", Engine: "connsim", Overlay: "connsim", Real: connReal, Stub: append([]string{"a registered peer that frames by hand (odd write pieces, oversize announcement)"}, connStub...),
		Rule:      "one case = one seeded run of 3..4 real transport parties with 2..5 concurrently sending goroutines (2..9 messages each; types 0/1/2/3/200 with legal topic combinations; payload lengths 0,1,31,32,33,4 KiB+-1,64 KiB+-1, 1 MiB, thorough: limit-1 and limit) and one configuration: fault-free, or one peer down / stalled / garbling / reset mid-stream / flooded while down (1100 messages) / a hand-framing peer announcing limit+1 / writing valid frames in odd pieces; the byte streams are released in seeded chunks (short reads at arbitrary boundaries); distinct = distinct sequence of (pipe, event) choices; non-trivial = messages were received and at least one release split the pending bytes of a pipe",
		Assume:    []string{"TLS record contents and ECDSA signatures vary between executions: schedules are expressed in pipe-level events and replay at frame level, not byte offsets"},
		QuickRuns: 2500, QuickSecs: 100, ThorRuns: 80000, ThorSecs: 1200, Batch: 10,
	})
	Register(&Check{
		ID: "C19", Engine: "netsim",
		Real:      []string{"mpc/binance/eddsa and mpc/binance/ecdsa adapters (ClassifyMsg, OnMsg, KeyGen, Sign)", "bnb-chain/tss-lib v2.0.2 (real protocol, its own goroutines)", "threshold.Scheme", "rbc.Receiver", "disc.Member", "disc.SilentSynchronizer", "msg.Box", "crypto/ed25519 and crypto/ecdsa as independent verifiers"},
		Stub:      append([]string{"recording proxy around the adapters (captures sendMsg routing flags)", "a participant that re-sends other parties' payloads under its own identity (20% of the EdDSA runs)"}, e1Stub...),
		Rule:      "one case = one seeded run of KeyGen followed by Sign among t+1 nodes through the full stack, (n,t) in {(2,1),(3,1),(3,2),(4,2),(4,3)}, EdDSA (ECDSA in ~4% of quick and 12% of thorough runs: 20-60 s each), digest shapes: 32 random bytes, leading zero byte(s), 1..20 bytes, 64 bytes; distinct = distinct schedule fingerprint; non-trivial = cross-link delivery inversions occurred and at least one signature was returned and checked",
		Assume:    []string{"tss-lib internals are not byte-reproducible (goroutine pools, own randomness): traces of these runs are compared by schedule only", "in tss-lib v2.0.2 the wire bytes carry no sender; the adapter's claimed-sender test compares the transport sender with itself, so the sender-binding clause is exercised only behaviourally (replayed payloads under another authenticated identity)"},
		QuickRuns: 160, QuickSecs: 110, ThorRuns: 40000, ThorSecs: 1500, Batch: 5, RunLimitS: 600,
	})
	Register(&Check{
		ID: "C20", Engine: "netsim", Race: true,
		Real:      []string{"threshold.Scheme", "disc.Member", "disc.SilentSynchronizer", "rbc.Receiver", "msg.Box", "mpc/bls TBLS", "mpc/ps TPS - all compiled with the Go race detector"},
		Stub:      append([]string{"MPC backend (scripted) in the session-history scenarios", "the deviating participant's NIC (early / duplicated / out-of-phase / malformed DKG messages)"}, e1Stub...),
		Rule:      "one case = one seeded run with concurrent dispatch (up to 4 deliveries into the same node started in one step, each on its own goroutine): 70% DKG (BLS/PS) with a deviating participant (early reveal, duplicates, late share, second commitment, withholding, malformed, none), 30% session histories (concurrent Sign on several topics, overlapping, cancelled, retried; KeyGen); oracle = Go race detector (GORACE=halt_on_error) plus panics; distinct = distinct schedule fingerprint; non-trivial = at least one step dispatched several deliveries concurrently",
		Assume:    []string{"the race detector reports unordered conflicting accesses of the explored executions only", "goroutine interleaving inside a step is decided by the Go scheduler: a reported race replays with high probability, not certainty"},
		QuickRuns: 4000, QuickSecs: 120, ThorRuns: 300000, ThorSecs: 1200, Batch: 25,
	})
	Register(&Check{
		ID: "C13", Engine: "netsim",
		Real:      []string{"threshold.Scheme (rbcEncoding, membership topic hash)", "disc.Member (tag/view encoding)", "rbc.Receiver", "msg.Box", "mpc/bls TBLS (StoredData / PublicParams ASN.1, Verifier)"},
		Stub:      append([]string{"MPC backend (scripted, rounds 0..127) in part of the runs"}, e1Stub...),
		Rule:      "runs 0..454 enumerate all pairs and triples of the boundary identifiers {0,1,127,128,255,256,257,511,512,0x7FFF,0x8000,0xFF00,0xFFFE,0xFFFF}; later runs sample identifiers over the whole 16-bit range; each case is a fault-free session (KeyGen and/or Sign, scripted or BLS backend) run twice, with the drawn ids and with the order-isomorphic ids 1..n; distinct = distinct (identifier tuple, schedule fingerprint); non-trivial = at least one identifier >= 256",
		Assume:    []string{"links are reliable and FIFO per direction", "identity node-id/party-id map"},
		QuickRuns: 6000, QuickSecs: 60, ThorRuns: 200000, ThorSecs: 600, Batch: 35,
	})
	Register(&Check{
		ID: "C06", Engine: "netsim",
		Real:      []string{"threshold.Scheme (membership translation, DKG/signing initialisation, p2p addressing)", "disc.Member", "disc.SilentSynchronizer", "rbc.Receiver", "msg.Box"},
		Stub:      append([]string{"MPC backend (scripted; records Init/OnMsg arguments and every emitted message)"}, e1Stub...),
		Rule:      "one case = one seeded membership map over 16-bit ids (identity / injective non-identity / several nodes per party, any replica participating, optionally two replicas of one party selected) x KeyGen and/or Sign x schedule; distinct = distinct (map, schedule fingerprint); non-trivial = the map is not the identity",
		Assume:    []string{"links are reliable and FIFO per direction", "the backend learns its own party id from the application (the factory is handed the node id)"},
		QuickRuns: 12000, QuickSecs: 60, ThorRuns: 400000, ThorSecs: 600,
	})
	byzReal := []string{"threshold.Scheme via LoudScheme/SilentScheme (dispatcher, rbcFilter, ack encoding)", "rbc.Receiver", "disc.Member", "disc.SilentSynchronizer", "msg.Box"}
	byzStub := append([]string{"MPC backend (scripted; records every hand-off)", "Byzantine NIC (adversary rewriting/injecting the traffic of the misbehaving participants and outsiders; never spoofs an honest source)"}, e1Stub...)
	Register(&Check{
		ID: "C02", Engine: "netsim", Real: byzReal, Stub: byzStub,
		Rule:      "one case = one seeded session (KeyGen or Sign, N=3..4, thorough ..6) with 1..N-2 Byzantine participants and outsiders, a drawn subset of fault kinds (equivocation per destination, forged acknowledgements about self/others/unseen digests, early and late, replays, mutated and withheld acknowledgements, outsider traffic) and a delivery schedule; distinct = distinct fingerprint of the sequence of (link, message class, injection) choices; non-trivial = at least one adversarial action fired and at least one broadcast was handed to an honest backend",
		Assume:    []string{"the transport authenticates the source: the adversary never sends under an honest identity (C16)", "honest links are reliable FIFO"},
		QuickRuns: 20000, QuickSecs: 60, ThorRuns: 800000, ThorSecs: 900,
	})
	Register(&Check{
		ID: "C03", Engine: "netsim", Real: byzReal, Stub: byzStub,
		Rule:      "same scenario space as C02 plus honest-only sessions; oracle over the hand-off log vs the simulator's wire log (participant, really transmitted to this party, at most once per sender and round, non-empty; p2p as received); distinct = distinct schedule fingerprint; non-trivial = at least one adversarial action fired and at least one broadcast was handed to an honest backend",
		Assume:    []string{"the transport authenticates the source: the adversary never sends under an honest identity (C16)", "honest links are reliable FIFO"},
		QuickRuns: 20000, QuickSecs: 60, ThorRuns: 800000, ThorSecs: 900,
	})
	Register(&Check{
		ID: "C04", Engine: "netsim",
		Real:      []string{"threshold.Scheme via LoudScheme/SilentScheme", "disc.Member", "disc.SilentSynchronizer", "rbc.Receiver", "msg.Box"},
		Stub:      append([]string{"MPC backend (scripted R-round protocol, one round number per broadcast)"}, e1Stub...),
		Rule:      "one case = one seeded run (configuration + delivery schedule) of KeyGen and/or Sign among honest nodes; distinct = distinct fingerprint of the sequence of (link, message class) choices; non-trivial = at least one acknowledgement was delivered to a node before the payload it refers to",
		Assume:    []string{"links are reliable and FIFO per direction (what the bundled TLS transport provides)", "goroutine interleavings inside one simulator step are not enumerated, only made irrelevant for replay"},
		QuickRuns: 15000, QuickSecs: 60, ThorRuns: 600000, ThorSecs: 600,
	})
}
