// Package meta describes the checks to the driver without importing any code
// under test (so the driver binary never goes stale with /repo).
package meta

type Check struct {
	ID            string
	Engine        string // netsim | coop | connsim | box
	Level         string // exploration | fault_enumeration
	Race          bool   // build the worker with -race
	Overlay       string // "", "coop", "connsim"
	Real          []string
	Stub          []string
	Rule          string
	Assume        []string
	QuickRuns     int     // target number of runs, quick tier
	QuickSecs     float64 // wall-clock budget for the exploration phase, quick tier
	ThorRuns      int
	ThorSecs      float64
	Batch         int // seeds per worker process
	MinNontrivial int // vacuity guard: fewer distinct non-trivial runs than this => exit 2
}

var Checks = map[string]*Check{}

func Register(c *Check) {
	if c.Batch == 0 {
		c.Batch = 40
	}
	if c.MinNontrivial == 0 {
		c.MinNontrivial = 2
	}
	if c.Level == "" {
		c.Level = "exploration"
	}
	Checks[c.ID] = c
}

var e1Stub = []string{"transport (simulator-owned per-link FIFO queues)", "logger (counting stub)", "crypto/rand.Reader (seeded stream)"}

func init() {
	Register(&Check{
		ID: "C01", Engine: "netsim",
		Real:      []string{"threshold.Scheme via LoudScheme/SilentScheme", "disc.Member", "disc.SilentSynchronizer", "rbc.Receiver", "msg.Box", "mpc/bls TBLS DKG, Sign, Verifier (real pairing crypto)"},
		Stub:      e1Stub,
		Rule:      "one case = one seeded run (n, t, mode, dispatch, schedule) of a full BLS DKG followed by the documented sign/aggregate/verify flow over every subset of size >= t for 5 digests; distinct = distinct schedule fingerprint; non-trivial = at least one cross-link delivery-order inversion relative to send order",
		Assume:    []string{"links are reliable and FIFO per direction", "identity node-id/party-id map, ids < 256 (C06/C13 cover the rest)"},
		QuickRuns: 1500, QuickSecs: 60, ThorRuns: 30000, ThorSecs: 900, Batch: 25,
	})
	Register(&Check{
		ID: "C11", Engine: "netsim", Level: "fault_enumeration",
		Real:      []string{"threshold.Scheme (KeyGen/Sign entry paths, result/ctx select)", "disc.Member", "disc.SilentSynchronizer", "rbc.Receiver", "msg.Box", "mpc/bls TBLS.KeyGen", "mpc/ps TPS.KeyGen"},
		Stub:      append([]string{"MPC backend (scripted, lock-step rounds) in part of the runs"}, e1Stub...),
		Rule:      "runs 0..N-1 enumerate, on the canonical schedule, for 8 base sessions (scripted/BLS/PS x loud/silent x KeyGen, scripted Sign) every peer P and every k: P silent after its k-th outgoing message (k=0: never shows up), and every single withheld message (enumeration indices beyond the traffic of the session are skipped); further runs draw crash point / withheld message / cancellation step / unusable stored data under seeded schedules for n=2..4; distinct = distinct (base, fault, position, outcome, schedule fingerprint); non-trivial = the fault fired while session traffic was in flight",
		Assume:    []string{"links are reliable FIFO until the fault", "a crashed node's own call is not judged"},
		QuickRuns: 4200, QuickSecs: 100, ThorRuns: 60000, ThorSecs: 900, Batch: 60,
	})
	Register(&Check{
		ID: "C12", Engine: "netsim",
		Real:      []string{"threshold.Scheme (handler tables, admission, cleanup paths of KeyGen/Sign)", "disc.Member", "disc.SilentSynchronizer", "rbc.Receiver", "msg.Box (startedSending across sessions)"},
		Stub:      append([]string{"MPC backend (scripted; hand-offs attributed to the emitting instance through unique payload bodies)", "outsider adversary (non-participants re-send copies of session traffic)"}, e1Stub...),
		Rule:      "one case = one seeded history of 2..6 phases over 1..3 topics (successful, peer-missing, cancelled, overlapping same-topic, concurrent different-topic Sign; successful and peer-missing KeyGen; a retry on the topic of an earlier failure), network drained between phases, seeded schedule inside each phase; distinct = distinct (history, schedule fingerprint); non-trivial = at least one failed/cancelled/overlapping session precedes a later phase",
		Assume:    []string{"links are reliable FIFO", "a retry starts after the traffic of the earlier session has been delivered (topic reuse while old traffic is in flight is outside the statement)"},
		QuickRuns: 3000, QuickSecs: 60, ThorRuns: 50000, ThorSecs: 900,
	})
	Register(&Check{
		ID: "C13", Engine: "netsim",
		Real:      []string{"threshold.Scheme (rbcEncoding, membership topic hash)", "disc.Member (tag/view encoding)", "rbc.Receiver", "msg.Box", "mpc/bls TBLS (StoredData / PublicParams ASN.1, Verifier)"},
		Stub:      append([]string{"MPC backend (scripted, rounds 0..127) in part of the runs"}, e1Stub...),
		Rule:      "runs 0..454 enumerate all pairs and triples of the boundary identifiers {0,1,127,128,255,256,257,511,512,0x7FFF,0x8000,0xFF00,0xFFFE,0xFFFF}; later runs sample identifiers over the whole 16-bit range; each case is a fault-free session (KeyGen and/or Sign, scripted or BLS backend) run twice, with the drawn ids and with the order-isomorphic ids 1..n; distinct = distinct (identifier tuple, schedule fingerprint); non-trivial = at least one identifier >= 256",
		Assume:    []string{"links are reliable and FIFO per direction", "identity node-id/party-id map"},
		QuickRuns: 1200, QuickSecs: 60, ThorRuns: 20000, ThorSecs: 600, Batch: 35,
	})
	Register(&Check{
		ID: "C06", Engine: "netsim",
		Real:      []string{"threshold.Scheme (membership translation, DKG/signing initialisation, p2p addressing)", "disc.Member", "disc.SilentSynchronizer", "rbc.Receiver", "msg.Box"},
		Stub:      append([]string{"MPC backend (scripted; records Init/OnMsg arguments and every emitted message)"}, e1Stub...),
		Rule:      "one case = one seeded membership map over 16-bit ids (identity / injective non-identity / several nodes per party, any replica participating, optionally two replicas of one party selected) x KeyGen and/or Sign x schedule; distinct = distinct (map, schedule fingerprint); non-trivial = the map is not the identity",
		Assume:    []string{"links are reliable and FIFO per direction", "the backend learns its own party id from the application (the factory is handed the node id)"},
		QuickRuns: 2500, QuickSecs: 45, ThorRuns: 40000, ThorSecs: 600,
	})
	byzReal := []string{"threshold.Scheme via LoudScheme/SilentScheme (dispatcher, rbcFilter, ack encoding)", "rbc.Receiver", "disc.Member", "disc.SilentSynchronizer", "msg.Box"}
	byzStub := append([]string{"MPC backend (scripted; records every hand-off)", "Byzantine NIC (adversary rewriting/injecting the traffic of the misbehaving participants and outsiders; never spoofs an honest source)"}, e1Stub...)
	Register(&Check{
		ID: "C02", Engine: "netsim", Real: byzReal, Stub: byzStub,
		Rule:      "one case = one seeded session (KeyGen or Sign, N=3..4, thorough ..6) with 1..N-2 Byzantine participants and outsiders, a drawn subset of fault kinds (equivocation per destination, forged acknowledgements about self/others/unseen digests, early and late, replays, mutated and withheld acknowledgements, outsider traffic) and a delivery schedule; distinct = distinct fingerprint of the sequence of (link, message class, injection) choices; non-trivial = at least one adversarial action fired and at least one broadcast was handed to an honest backend",
		Assume:    []string{"the transport authenticates the source: the adversary never sends under an honest identity (C16)", "honest links are reliable FIFO"},
		QuickRuns: 4000, QuickSecs: 50, ThorRuns: 80000, ThorSecs: 900,
	})
	Register(&Check{
		ID: "C03", Engine: "netsim", Real: byzReal, Stub: byzStub,
		Rule:      "same scenario space as C02 plus honest-only sessions; oracle over the hand-off log vs the simulator's wire log (participant, really transmitted to this party, at most once per sender and round, non-empty; p2p as received); distinct = distinct schedule fingerprint; non-trivial = at least one adversarial action fired and at least one broadcast was handed to an honest backend",
		Assume:    []string{"the transport authenticates the source: the adversary never sends under an honest identity (C16)", "honest links are reliable FIFO"},
		QuickRuns: 4000, QuickSecs: 50, ThorRuns: 80000, ThorSecs: 900,
	})
	Register(&Check{
		ID: "C04", Engine: "netsim",
		Real:      []string{"threshold.Scheme via LoudScheme/SilentScheme", "disc.Member", "disc.SilentSynchronizer", "rbc.Receiver", "msg.Box"},
		Stub:      append([]string{"MPC backend (scripted R-round protocol, one round number per broadcast)"}, e1Stub...),
		Rule:      "one case = one seeded run (configuration + delivery schedule) of KeyGen and/or Sign among honest nodes; distinct = distinct fingerprint of the sequence of (link, message class) choices; non-trivial = at least one acknowledgement was delivered to a node before the payload it refers to",
		Assume:    []string{"links are reliable and FIFO per direction (what the bundled TLS transport provides)", "goroutine interleavings inside one simulator step are not enumerated, only made irrelevant for replay"},
		QuickRuns: 3000, QuickSecs: 40, ThorRuns: 60000, ThorSecs: 600,
	})
}
