// Package meta describes the checks to the driver without importing any code
// under test (so the driver binary never goes stale with /repo).
package meta

type Check struct {
	ID            string
	Engine        string // netsim | coop | connsim | box
	Level         string // exploration | fault_enumeration
	Race          bool   // build the worker with -race
	Overlay       string // "", "coop", "connsim"
	Real          []string
	Stub          []string
	Rule          string
	Assume        []string
	QuickRuns     int     // target number of runs, quick tier
	QuickSecs     float64 // wall-clock budget for the exploration phase, quick tier
	ThorRuns      int
	ThorSecs      float64
	Batch         int // seeds per worker process
	MinNontrivial int // vacuity guard: fewer distinct non-trivial runs than this => exit 2
}

var Checks = map[string]*Check{}

func Register(c *Check) {
	if c.Batch == 0 {
		c.Batch = 40
	}
	if c.MinNontrivial == 0 {
		c.MinNontrivial = 2
	}
	if c.Level == "" {
		c.Level = "exploration"
	}
	Checks[c.ID] = c
}

var e1Stub = []string{"transport (simulator-owned per-link FIFO queues)", "logger (counting stub)", "crypto/rand.Reader (seeded stream)"}

func init() {
	Register(&Check{
		ID: "C04", Engine: "netsim",
		Real:      []string{"threshold.Scheme via LoudScheme/SilentScheme", "disc.Member", "disc.SilentSynchronizer", "rbc.Receiver", "msg.Box"},
		Stub:      append([]string{"MPC backend (scripted R-round protocol, one round number per broadcast)"}, e1Stub...),
		Rule:      "one case = one seeded run (configuration + delivery schedule) of KeyGen and/or Sign among honest nodes; distinct = distinct fingerprint of the sequence of (link, message class) choices; non-trivial = at least one acknowledgement was delivered to a node before the payload it refers to",
		Assume:    []string{"links are reliable and FIFO per direction (what the bundled TLS transport provides)", "goroutine interleavings inside one simulator step are not enumerated, only made irrelevant for replay"},
		QuickRuns: 3000, QuickSecs: 40, ThorRuns: 60000, ThorSecs: 600,
	})
}
