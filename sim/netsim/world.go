// Package netsim is engine E1: a whole-deployment, message-level simulator.
//
// All nodes of a deployment (real threshold.Scheme / disc.Member / msg.Box
// instances) live in one testing/synctest bubble. The only transport they see
// is World.SendFunc. The root goroutine acts exclusively at quiescence
// (synctest.Wait): it seals what was sent during the previous step into
// per-link FIFO queues in a canonical order, evaluates invariants, and then
// lets a Scheduler pick exactly one enabled choice (deliver the head of a link,
// fire a scenario proposal such as an API call or an adversarial injection, or
// advance simulated time).
package netsim

import (
	"bytes"
	"encoding/hex"
	"fmt"
	"runtime"
	"runtime/debug"
	"sort"
	"strconv"
	"strings"
	"sync"
	"sync/atomic"
	"testing/synctest"
	"time"

	"verif/sim/prng"

	tss "github.com/IBM/TSS/types"
)

// Msg is one message on one directed link.
type Msg struct {
	ID       int
	From, To uint16
	Type     uint8
	Topic    []byte
	Data     []byte
	SentStep int
	SentAt   time.Duration
	Tag      string // "" honest, otherwise the fault that produced it
	goid     uint64
	ord      int
}

// Class is a short, content-independent description used in traces and
// fingerprints.
func (m *Msg) Class() string {
	switch m.Type {
	case uint8(tss.MsgTypeSync):
		if len(m.Data) > 0 {
			switch m.Data[0] {
			case 1:
				return "sync.view"
			case 2:
				return "sync.query"
			case 3:
				return "sync.resp"
			}
		}
		return "sync.?"
	case uint8(tss.MsgTypeMPC):
		if len(m.Data) == 0 {
			return "mpc.empty"
		}
		if m.Data[0]>>7 == 0 {
			return "mpc.ack"
		}
		if len(m.Data) >= 2 {
			return "mpc.pay" + strconv.Itoa(int(m.Data[1]))
		}
		return "mpc.pay"
	}
	return "type" + strconv.Itoa(int(m.Type))
}

func (m *Msg) IsAck() bool {
	return m.Type == uint8(tss.MsgTypeMPC) && len(m.Data) > 0 && m.Data[0]>>7 == 0
}

func (m *Msg) String() string {
	t := hex.EncodeToString(m.Topic)
	if len(t) > 6 {
		t = t[:6]
	}
	return fmt.Sprintf("#%d %d>%d %s topic=%s len=%d %s", m.ID, m.From, m.To, m.Class(), t, len(m.Data), m.Tag)
}

type Endpoint interface {
	HandleMessage(msg *tss.IncMessage)
}

type EndpointFunc func(msg *tss.IncMessage)

func (f EndpointFunc) HandleMessage(msg *tss.IncMessage) { f(msg) }

type Node struct {
	ID   uint16
	EP   Endpoint
	Down bool // crashed: receives nothing, sends nothing
	Sent int  // number of messages this node put on the wire (post canonicalisation, pre filter)
}

type Link struct {
	From, To uint16
	Q        []*Msg
	busy     bool
	Popped   int
}

func (l *Link) Key() string { return "d:" + strconv.Itoa(int(l.From)) + ">" + strconv.Itoa(int(l.To)) }

// Proposal is a scenario-defined choice offered to the scheduler at a
// quiescent point (API call, cancellation, adversarial injection, ...).
type Proposal struct {
	Key       string
	Mandatory bool    // the canonical tail scheduler fires it as soon as enabled
	Weight    float64 // relative to 1.0 for a link head
	Fire      func()
	// JoinWith: in concurrent-dispatch mode this event is meant to meet a delivery into node JoinNode: it is
	// only started in the same step as such a delivery (or on its own once the fair tail of the run has begun)
	JoinWith bool
	JoinNode uint16
	// JoinClass, when set, restricts that to deliveries whose message class starts with it; JoinP is the probability
	// with which one such opportunity is taken (0: 0.35)
	JoinClass string
	JoinP     float64
}

type Action struct {
	K string        `json:"k"`           // choice key ("d:1>2", "t", proposal key)
	D time.Duration `json:"d,omitempty"` // tick duration
	C string        `json:"c,omitempty"` // class of the delivered message (validation / fingerprint)
	J bool          `json:"j,omitempty"` // joined: performed in the same step as the previous action (concurrent dispatch)
}

type Call struct {
	Name      string
	Node      uint16
	Done      bool
	Err       error
	Out       []byte
	Panic     string
	StartAt   time.Duration
	EndAt     time.Duration
	StartStep int
	EndStep   int
}

type PanicRec struct {
	Where string
	Value string
	Stack string
	Msg   *Msg
}

type Violation struct {
	Invariant string `json:"invariant"`
	Class     string `json:"class"`
	Detail    string `json:"detail"`
}

type World struct {
	Seed    uint64
	Serial  bool // one delivery per step (true) or several concurrently (false)
	NonFIFO bool // links may reorder (default: reliable FIFO per direction)
	// JoinProposals: in concurrent-dispatch mode scenario events (API calls, cancellations) may be started in the
	// same step as deliveries and as one another (C20)
	JoinProposals bool
	MaxConc       int
	Nodes         map[uint16]*Node
	Links         map[[2]uint16]*Link
	Step          int
	Actions       []Action
	WireLog       []*Msg // every message put on a link, post filter
	Delivered     []*Msg
	Calls         []*Call
	Panics        []PanicRec
	Faults        map[string]int
	Probes        map[string]int
	// Filter is applied to every message a node sends, in canonical order, at seal
	// time. It returns the messages that actually go on the wire (possibly none,
	// possibly altered, duplicated or redirected). nil = identity.
	Filter func(m *Msg) []*Msg
	// Propose returns the scenario choices enabled at this quiescent point.
	Propose func() []Proposal
	// Force lets a replayed action list fire a scenario proposal that the scenario
	// would not offer at this point on its own (used by minimisation: an injection
	// identified by its ordinal can be replayed without its predecessors).
	Force func(key string) *Proposal
	// Invariant is evaluated at every quiescent point.
	Invariant func() *Violation
	// ActionSink receives every action as soon as it is chosen (crash capture).
	ActionSink func(a Action)
	// OnDeliver is called (root goroutine) just before a message is handed to its destination.
	OnDeliver func(m *Msg)

	mu              sync.Mutex
	pending         []*Msg
	nextMsgID       int
	nextOrd         int
	start           time.Time
	inflight        map[*Link]bool
	Deliveries      int
	Ticks           int
	StuckDeliveries []*Msg
	stuck           map[*Link]*Msg
	stepA           atomic.Int64
	hold            bool
	held            []func()
}

// StepA is the current step number, readable from any goroutine.
func (w *World) StepA() int64 { return w.stepA.Load() }

func NewWorld(seed uint64) *World {
	return &World{
		Seed:     seed,
		Serial:   true,
		MaxConc:  3,
		Nodes:    map[uint16]*Node{},
		Links:    map[[2]uint16]*Link{},
		Faults:   map[string]int{},
		Probes:   map[string]int{},
		start:    time.Now(),
		inflight: map[*Link]bool{},
		stuck:    map[*Link]*Msg{},
	}
}

func (w *World) Now() time.Duration { return time.Since(w.start) }

func (w *World) AddNode(id uint16, ep Endpoint) *Node {
	n := &Node{ID: id, EP: ep}
	w.Nodes[id] = n
	return n
}

func goid() uint64 {
	var buf [64]byte
	n := runtime.Stack(buf[:], false)
	// "goroutine 123 ["
	s := buf[10:n]
	i := bytes.IndexByte(s, ' ')
	if i < 0 {
		return 0
	}
	v, _ := strconv.ParseUint(string(s[:i]), 10, 64)
	return v
}

// SendFunc is the transport handed to node `from`.
func (w *World) SendFunc(from uint16) func(msgType uint8, topic []byte, msg []byte, to ...uint16) {
	return func(msgType uint8, topic []byte, msg []byte, to ...uint16) {
		g := goid()
		w.mu.Lock()
		defer w.mu.Unlock()
		for _, dst := range to {
			m := &Msg{From: from, To: dst, Type: msgType, Topic: append([]byte(nil), topic...), Data: append([]byte(nil), msg...), goid: g, ord: w.nextOrd}
			w.nextOrd++
			w.pending = append(w.pending, m)
		}
	}
}

// Inject puts a fabricated message at the tail of link from>to (root goroutine only).
func (w *World) Inject(from, to uint16, typ uint8, topic, data []byte, tag string) *Msg {
	m := &Msg{From: from, To: to, Type: typ, Topic: append([]byte(nil), topic...), Data: append([]byte(nil), data...), Tag: tag}
	w.enqueue(m)
	return m
}

// MoveToHead moves a queued message to the head of its link (an adversary
// decides the order in which its own NIC transmits).
func (w *World) MoveToHead(m *Msg) {
	l := w.link(m.From, m.To)
	for i, q := range l.Q {
		if q == m {
			copy(l.Q[1:i+1], l.Q[:i])
			l.Q[0] = m
			return
		}
	}
}

func (w *World) link(from, to uint16) *Link {
	k := [2]uint16{from, to}
	l := w.Links[k]
	if l == nil {
		l = &Link{From: from, To: to}
		w.Links[k] = l
	}
	return l
}

func (w *World) enqueue(m *Msg) {
	m.ID = w.nextMsgID
	w.nextMsgID++
	m.SentStep = w.Step
	m.SentAt = w.Now()
	l := w.link(m.From, m.To)
	l.Q = append(l.Q, m)
	w.WireLog = append(w.WireLog, m)
}

func msgBytes(m *Msg) []byte {
	b := []byte{byte(m.To >> 8), byte(m.To), m.Type, byte(len(m.Topic))}
	b = append(b, m.Topic...)
	b = append(b, m.Data...)
	return b
}

// seal moves what nodes sent during the last step into the link queues in a
// canonical order that does not depend on how the Go scheduler interleaved the
// sending goroutines.
func (w *World) seal() {
	w.mu.Lock()
	p := w.pending
	w.pending = nil
	w.mu.Unlock()
	if len(p) == 0 {
		return
	}
	// group by (from, goroutine); program order inside a group
	type group struct {
		from uint16
		msgs []*Msg
		key  uint64
	}
	byKey := map[[2]uint64]*group{}
	var groups []*group
	sort.SliceStable(p, func(i, j int) bool { return p[i].ord < p[j].ord })
	for _, m := range p {
		k := [2]uint64{uint64(m.From), m.goid}
		g := byKey[k]
		if g == nil {
			g = &group{from: m.From}
			byKey[k] = g
			groups = append(groups, g)
		}
		g.msgs = append(g.msgs, m)
	}
	for _, g := range groups {
		var parts [][]byte
		for _, m := range g.msgs {
			parts = append(parts, msgBytes(m))
		}
		g.key = prng.Hash64(parts...)
	}
	sort.SliceStable(groups, func(i, j int) bool {
		if groups[i].from != groups[j].from {
			return groups[i].from < groups[j].from
		}
		return groups[i].key < groups[j].key
	})
	// per sender: if several goroutines sent in this step, interleave them by a
	// content-derived pseudo-random merge (a pure function of seed and content).
	i := 0
	for i < len(groups) {
		j := i
		for j < len(groups) && groups[j].from == groups[i].from {
			j++
		}
		gs := groups[i:j]
		var merged []*Msg
		if len(gs) == 1 {
			merged = gs[0].msgs
		} else {
			w.Probes["multi-goroutine-send-step"]++
			var seedParts [][]byte
			for _, g := range gs {
				seedParts = append(seedParts, []byte(strconv.FormatUint(g.key, 16)))
			}
			r := prng.Derive(w.Seed^prng.Hash64(seedParts...), "merge")
			idx := make([]int, len(gs))
			remaining := 0
			for _, g := range gs {
				remaining += len(g.msgs)
			}
			for remaining > 0 {
				// choose a group with messages left; keep bursts so that both
				// "all of A then all of B" and fine interleavings occur.
				var cand []int
				for gi, g := range gs {
					if idx[gi] < len(g.msgs) {
						cand = append(cand, gi)
					}
				}
				gi := cand[r.Intn(len(cand))]
				burst := 1 + r.Intn(len(gs[gi].msgs)-idx[gi])
				for b := 0; b < burst; b++ {
					merged = append(merged, gs[gi].msgs[idx[gi]])
					idx[gi]++
					remaining--
				}
			}
		}
		node := w.Nodes[gs[0].from]
		for _, m := range merged {
			if node != nil {
				node.Sent++
				if node.Down {
					w.Faults["crash-drop-out"]++
					continue
				}
			}
			if w.Filter != nil {
				for _, fm := range w.Filter(m) {
					w.enqueue(fm)
				}
			} else {
				w.enqueue(m)
			}
		}
		i = j
	}
}

func (w *World) sortedLinks() []*Link {
	ls := make([]*Link, 0, len(w.Links))
	for _, l := range w.Links {
		ls = append(ls, l)
	}
	sort.Slice(ls, func(i, j int) bool {
		if ls[i].From != ls[j].From {
			return ls[i].From < ls[j].From
		}
		return ls[i].To < ls[j].To
	})
	return ls
}

// Enabled returns the links whose head can be delivered now, canonical order.
func (w *World) Enabled() []*Link {
	var out []*Link
	for _, l := range w.sortedLinks() {
		if len(l.Q) == 0 {
			continue
		}
		w.mu.Lock()
		busy := l.busy
		w.mu.Unlock()
		if busy {
			continue
		}
		out = append(out, l)
	}
	return out
}

func (w *World) QueuedTotal() int {
	n := 0
	for _, l := range w.Links {
		n += len(l.Q)
	}
	return n
}

func (w *World) BusyLinks() int {
	w.mu.Lock()
	defer w.mu.Unlock()
	n := 0
	for _, l := range w.Links {
		if l.busy {
			n++
		}
	}
	return n
}

func (w *World) deliver(l *Link) {
	idx := 0
	if w.NonFIFO && len(l.Q) > 1 {
		// an application that dispatches every incoming message on its own goroutine gives no per-link order:
		// pick any queued message of the link (a pure function of seed, link and position)
		// (protocol traffic only: the membership synchroniser re-sends its view periodically and keeps the latest
		// one per member, which presumes that a link does not deliver an older view after a newer one)
		run := 0
		for run < len(l.Q) && l.Q[run].Type == uint8(tss.MsgTypeMPC) {
			run++
		}
		r := prng.Derive(w.Seed, "nonfifo/"+l.Key()+"/"+strconv.Itoa(l.Popped))
		if run > 1 && r.Bool(0.5) {
			idx = r.Intn(run)
			if idx > 0 {
				w.Probes["link-reordering"]++
			}
		}
	}
	m := l.Q[idx]
	l.Q = append(l.Q[:idx:idx], l.Q[idx+1:]...)
	l.Popped++
	dst := w.Nodes[m.To]
	if dst == nil || dst.Down {
		w.Faults["crash-drop-in"]++
		return
	}
	if w.OnDeliver != nil {
		w.OnDeliver(m)
	}
	w.Delivered = append(w.Delivered, m)
	w.Deliveries++
	w.mu.Lock()
	l.busy = true
	w.stuck[l] = m
	w.mu.Unlock()
	inc := &tss.IncMessage{Data: append([]byte(nil), m.Data...), Source: m.From, MsgType: m.Type, Topic: append([]byte(nil), m.Topic...)}
	if m.Topic == nil {
		inc.Topic = nil
	}
	if m.Data == nil {
		inc.Data = nil
	}
	launch := func() {
		go func() {
			defer func() {
				if r := recover(); r != nil {
					w.mu.Lock()
					w.Panics = append(w.Panics, PanicRec{Where: "HandleMessage@" + strconv.Itoa(int(m.To)), Value: fmt.Sprint(r), Stack: string(debug.Stack()), Msg: m})
					w.mu.Unlock()
				}
				w.mu.Lock()
				l.busy = false
				delete(w.stuck, l)
				w.mu.Unlock()
			}()
			dst.EP.HandleMessage(inc)
		}()
	}
	if w.hold {
		// concurrent dispatch: the dispatcher goroutines of a step are started together at the end of the step's
		// composition (see Run), after the API events that joined the step
		w.held = append(w.held, launch)
		return
	}
	launch()
}

// Stuck returns deliveries whose HandleMessage has not returned although the
// system is quiescent.
func (w *World) Stuck() []*Msg {
	w.mu.Lock()
	defer w.mu.Unlock()
	var out []*Msg
	for _, m := range w.stuck {
		out = append(out, m)
	}
	sort.Slice(out, func(i, j int) bool { return out[i].ID < out[j].ID })
	return out
}

// StartCall runs f on a fresh goroutine of the bubble and records its outcome.
func (w *World) StartCall(name string, node uint16, f func() ([]byte, error)) *Call {
	c := &Call{Name: name, Node: node, StartAt: w.Now(), StartStep: w.Step}
	w.Calls = append(w.Calls, c)
	go func() {
		defer func() {
			if r := recover(); r != nil {
				w.mu.Lock()
				c.Panic = fmt.Sprint(r)
				w.Panics = append(w.Panics, PanicRec{Where: name + "@" + strconv.Itoa(int(node)), Value: fmt.Sprint(r), Stack: string(debug.Stack())})
				c.Done = true
				c.EndAt = w.Now()
				c.EndStep = int(w.StepA())
				w.mu.Unlock()
			}
		}()
		out, err := f()
		w.mu.Lock()
		c.Out, c.Err, c.Done = out, err, true
		c.EndAt = w.Now()
		c.EndStep = int(w.StepA())
		w.mu.Unlock()
	}()
	return c
}

func (w *World) CallDone(c *Call) bool {
	w.mu.Lock()
	defer w.mu.Unlock()
	return c.Done
}

func (w *World) PanicCount() int {
	w.mu.Lock()
	defer w.mu.Unlock()
	return len(w.Panics)
}

// Choice is what a Scheduler selects from.
type Choice struct {
	Key      string
	Link     *Link
	Proposal *Proposal
	Affine   bool // a JoinWith proposal whose node is the destination of this step's first delivery
}

type Scheduler interface {
	// Next returns the index of the chosen choice, or -1 and a duration to
	// advance simulated time. done=true ends the run (replay list exhausted in
	// strict mode etc. are reported through err).
	Next(w *World, choices []Choice) (idx int, tick time.Duration)
	// Join is asked, in concurrent-dispatch mode, whether a further delivery
	// should be started in the same step; -1 = no.
	Join(w *World, choices []Choice) int
}

type RunLimits struct {
	MaxSteps int
	Horizon  time.Duration
	// After FairAfterSteps steps or FairAfter of simulated time (measured from
	// the beginning of this Run call) the seeded scheduler is replaced by the
	// fair canonical one, so that liveness oracles are only ever evaluated under
	// a schedule that eventually delivers everything.
	FairAfterSteps int
	FairAfter      time.Duration
}

// Run drives the world until done() holds at a quiescent point, a violation is
// found, or a limit is hit. It returns the first violation, if any.
func (w *World) Run(s Scheduler, lim RunLimits, done func() bool) *Violation {
	step0, t0 := w.Step, w.Now()
	fair := false
	for {
		if !fair && ((lim.FairAfterSteps > 0 && w.Step-step0 >= lim.FairAfterSteps) || (lim.FairAfter > 0 && w.Now()-t0 >= lim.FairAfter)) {
			fair = true
			w.Probes["fair-tail"]++
			s = &CanonicalSched{}
		}
		synctest.Wait()
		prng.Heartbeat.Add(1)
		w.seal()
		if w.PanicCount() > 0 {
			return nil // the caller turns recorded panics into violations
		}
		if w.Invariant != nil {
			if v := w.Invariant(); v != nil {
				return v
			}
		}
		if done != nil && done() {
			return nil
		}
		if w.Step-step0 >= lim.MaxSteps || w.Now()-t0 >= lim.Horizon {
			w.Probes["limit-hit"]++
			return nil
		}
		var choices []Choice
		for _, l := range w.Enabled() {
			choices = append(choices, Choice{Key: l.Key(), Link: l})
		}
		if w.Propose != nil {
			ps := w.Propose()
			for i := range ps {
				if ps[i].JoinWith && !w.Serial && w.JoinProposals && !fair {
					continue // waits for a delivery into its node (join loop below), at the latest for the fair tail
				}
				choices = append(choices, Choice{Key: ps[i].Key, Proposal: &ps[i]})
			}
		}
		if pk, ok := s.(interface{ Peek() (string, bool) }); ok && w.Force != nil {
			if key, more := pk.Peek(); more && key != "t" {
				found := false
				for _, c := range choices {
					if c.Key == key {
						found = true
					}
				}
				if !found {
					if p := w.Force(key); p != nil {
						choices = append(choices, Choice{Key: p.Key, Proposal: p})
					}
				}
			}
		}
		idx, tick := s.Next(w, choices)
		w.Step++
		w.stepA.Store(int64(w.Step))
		if idx < 0 {
			if tick <= 0 {
				tick = time.Millisecond
			}
			w.record(Action{K: "t", D: tick})
			w.Ticks++
			time.Sleep(tick)
			continue
		}
		c := choices[idx]
		w.hold = !w.Serial
		firstDest, haveDest, firstClass := uint16(0), false, ""
		if c.Link != nil {
			firstDest, haveDest, firstClass = c.Link.To, true, c.Link.Q[0].Class()
			w.record(Action{K: c.Key, C: firstClass})
			w.deliver(c.Link)
		} else {
			w.record(Action{K: c.Key})
			c.Proposal.Fire()
		}
		// concurrent dispatch: further deliveries - and, where the scenario allows it (JoinProposals), further
		// scenario events such as API calls or cancellations - are started in the same step, each on its own
		// goroutine. Steps are separated by synctest.Wait, which orders everything before it with everything after
		// it, so only activities of one step are unordered for the race detector.
		for k := 1; !w.Serial && k < w.MaxConc; k++ {
			var more []Choice
			for _, l := range w.Enabled() {
				more = append(more, Choice{Key: l.Key(), Link: l})
			}
			if w.JoinProposals && w.Propose != nil {
				ps := w.Propose()
				for i := range ps {
					if strings.HasPrefix(ps[i].Key, "inj:") || strings.HasPrefix(ps[i].Key, "g:") {
						continue // injections are the adversary's own, sequential decisions
					}
					if ps[i].JoinWith {
						if !haveDest || ps[i].JoinNode != firstDest || !strings.HasPrefix(firstClass, ps[i].JoinClass) {
							continue
						}
						more = append(more, Choice{Key: ps[i].Key, Proposal: &ps[i], Affine: true})
						continue
					}
					more = append(more, Choice{Key: ps[i].Key, Proposal: &ps[i]})
				}
			}
			if len(more) == 0 {
				break
			}
			j := s.Join(w, more)
			if j < 0 {
				break
			}
			if more[j].Link != nil {
				w.record(Action{K: more[j].Key, C: more[j].Link.Q[0].Class(), J: true})
				w.Probes["concurrent-dispatch"]++
				w.deliver(more[j].Link)
			} else {
				w.record(Action{K: more[j].Key, J: true})
				w.Probes["concurrent-api-event"]++
				if more[j].Affine {
					w.Probes["api-event-joined-to-delivery-into-its-node"]++
					if len(w.Delivered) > 0 {
						w.Probes["api-event-joined-to:"+w.Delivered[len(w.Delivered)-1].Class()]++
					}
				}
				more[j].Proposal.Fire()
				if more[j].Affine {
					// the event was waiting for this delivery: give its goroutines a head start of a few microseconds,
					// else the dispatcher is through before the call has got anywhere
					for i := 0; i < 40; i++ {
						runtime.Gosched()
					}
				}
			}
		}
		w.hold = false
		for _, launch := range w.held {
			launch()
		}
		w.held = w.held[:0]
	}
}

func (w *World) record(a Action) {
	w.Actions = append(w.Actions, a)
	if w.ActionSink != nil {
		w.ActionSink(a)
	}
}

// Fingerprint summarises the explored schedule (sequence of choices and message classes).
func (w *World) Fingerprint() string {
	var sb strings.Builder
	for _, a := range w.Actions {
		if a.K == "t" {
			sb.WriteString("t;")
			continue
		}
		sb.WriteString(a.K)
		sb.WriteString("/")
		sb.WriteString(a.C)
		sb.WriteString(";")
	}
	return strconv.FormatUint(prng.Hash64([]byte(sb.String())), 16)
}

// ContentHash covers every delivered byte: used by the determinism self-test.
func (w *World) ContentHash() string {
	var parts [][]byte
	for _, m := range w.Delivered {
		parts = append(parts, []byte(strconv.Itoa(m.ID)), msgBytes(m), []byte{byte(m.From >> 8), byte(m.From)})
	}
	return strconv.FormatUint(prng.Hash64(parts...), 16)
}
