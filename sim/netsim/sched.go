package netsim

import (
	"fmt"
	"time"

	"verif/sim/prng"
)

// Strategies of the seeded scheduler (swarm: each run draws one).
var Strategies = []string{"uniform", "starve-node", "starve-link", "acks-first", "acks-last", "bursty", "fifo", "timer-happy", "pct", "lifo-links"}

type RandomSched struct {
	R        *prng.Rand
	Strategy string
	TickP    float64 // probability of a spontaneous tick when something is enabled
	JoinP    float64
	IdleTick time.Duration
	// strategy state
	victimNode uint16
	victimLink string
	prio       map[string]float64
	changeAt   map[int]bool
	lastLink   string
	init       bool
	nodesSeen  []uint16
}

func NewRandomSched(r *prng.Rand, strategy string) *RandomSched {
	s := &RandomSched{R: r, Strategy: strategy, TickP: 0.02, JoinP: 0.5, IdleTick: 50 * time.Millisecond}
	if strategy == "timer-happy" {
		s.TickP = 0.25
	}
	return s
}

func (s *RandomSched) jitter(d time.Duration) time.Duration {
	// odd number of microseconds: timers of one node never coincide
	return d + time.Duration(1+2*s.R.Intn(500))*time.Microsecond
}

func (s *RandomSched) setup(w *World) {
	s.init = true
	var ids []uint16
	for id := range w.Nodes {
		ids = append(ids, id)
	}
	sortU16(ids)
	s.nodesSeen = ids
	if len(ids) > 0 {
		s.victimNode = ids[s.R.Intn(len(ids))]
		a := ids[s.R.Intn(len(ids))]
		b := ids[s.R.Intn(len(ids))]
		s.victimLink = fmt.Sprintf("d:%d>%d", a, b)
	}
	s.prio = map[string]float64{}
	s.changeAt = map[int]bool{}
	for i := 0; i < 3; i++ {
		s.changeAt[s.R.Intn(400)] = true
	}
}

func sortU16(a []uint16) {
	for i := 1; i < len(a); i++ {
		for j := i; j > 0 && a[j] < a[j-1]; j-- {
			a[j], a[j-1] = a[j-1], a[j]
		}
	}
}

func (s *RandomSched) weight(w *World, c Choice) float64 {
	if c.Proposal != nil {
		if c.Proposal.Weight > 0 {
			return c.Proposal.Weight
		}
		return 1
	}
	l := c.Link
	head := l.Q[0]
	switch s.Strategy {
	case "starve-node":
		if l.To == s.victimNode || l.From == s.victimNode {
			return 0.02
		}
	case "starve-link":
		if l.Key() == s.victimLink {
			return 0.005
		}
	case "acks-first":
		if head.IsAck() {
			return 50
		}
	case "acks-last":
		if head.IsAck() {
			return 0.02
		}
	case "bursty":
		if l.Key() == s.lastLink {
			return 30
		}
	case "pct":
		p, ok := s.prio[l.Key()]
		if !ok {
			p = s.R.Float64()
			s.prio[l.Key()] = p
		}
		if s.changeAt[w.Step] {
			s.prio[l.Key()] = s.R.Float64() * 0.01
		}
		return 0.001 + p*p*p*p*100
	}
	return 1
}

func (s *RandomSched) Next(w *World, choices []Choice) (int, time.Duration) {
	if !s.init {
		s.setup(w)
	}
	if len(choices) == 0 {
		return -1, s.jitter(s.IdleTick)
	}
	if s.R.Bool(s.TickP) {
		ds := []time.Duration{time.Millisecond, time.Millisecond, 3 * time.Millisecond, 10 * time.Millisecond, 10 * time.Millisecond, 70 * time.Millisecond, 210 * time.Millisecond, 650 * time.Millisecond}
		return -1, s.jitter(ds[s.R.Intn(len(ds))])
	}
	if s.Strategy == "fifo" {
		// near-synchronous: oldest message first, proposals as soon as offered
		best := -1
		for i, c := range choices {
			if c.Proposal != nil {
				if s.R.Bool(0.5) {
					return i, 0
				}
				continue
			}
			if best < 0 || c.Link.Q[0].ID < choices[best].Link.Q[0].ID {
				best = i
			}
		}
		if best >= 0 {
			return best, 0
		}
	}
	if s.Strategy == "lifo-links" {
		// newest head first: maximises overtaking between links
		best := -1
		if !s.R.Bool(0.2) {
			for i, c := range choices {
				if c.Link == nil {
					continue
				}
				if best < 0 || c.Link.Q[0].ID > choices[best].Link.Q[0].ID {
					best = i
				}
			}
			if best >= 0 {
				return best, 0
			}
		}
	}
	total := 0.0
	ws := make([]float64, len(choices))
	for i, c := range choices {
		ws[i] = s.weight(w, c)
		total += ws[i]
	}
	x := s.R.Float64() * total
	idx := len(choices) - 1
	for i, wt := range ws {
		if x < wt {
			idx = i
			break
		}
		x -= wt
	}
	if choices[idx].Link != nil {
		s.lastLink = choices[idx].Key
	}
	return idx, 0
}

func (s *RandomSched) Join(w *World, choices []Choice) int {
	// an event that waits for a delivery into its node and has found one
	for i, c := range choices {
		if c.Affine {
			p := 0.35
			if c.Proposal != nil && c.Proposal.JoinP > 0 {
				p = c.Proposal.JoinP
			}
			if s.R.Bool(p) {
				return i
			}
		}
	}
	if !s.R.Bool(s.JoinP) {
		return -1
	}
	// prefer a link into the same destination as the last delivery: that is the
	// case concurrent dispatch exists for
	if len(w.Delivered) > 0 && s.R.Bool(0.7) {
		last := w.Delivered[len(w.Delivered)-1]
		var same []int
		for i, c := range choices {
			if c.Link != nil && c.Link.To == last.To {
				same = append(same, i)
			}
		}
		if len(same) > 0 {
			return same[s.R.Intn(len(same))]
		}
	}
	return s.R.Intn(len(choices))
}

// CanonicalSched is the deterministic tail used after a replayed/minimised
// action list is exhausted: mandatory proposals first, then the oldest message.
type CanonicalSched struct {
	IdleTick time.Duration
}

func (s *CanonicalSched) Next(w *World, choices []Choice) (int, time.Duration) {
	best := -1
	for i, c := range choices {
		if c.Proposal != nil {
			if c.Proposal.Mandatory {
				return i, 0
			}
			continue
		}
		if best < 0 || c.Link.Q[0].ID < choices[best].Link.Q[0].ID {
			best = i
		}
	}
	if best >= 0 {
		return best, 0
	}
	d := s.IdleTick
	if d == 0 {
		d = 50*time.Millisecond + 3*time.Microsecond
	}
	return -1, d
}

func (s *CanonicalSched) Join(w *World, choices []Choice) int { return -1 }

// ScriptSched replays an explicit action list. In strict mode a recorded
// action that is not enabled (or whose head message class differs) marks the
// replay as diverged; in lenient mode (minimisation) it is skipped.
type ScriptSched struct {
	Actions  []Action
	Lenient  bool
	Tail     Scheduler
	pos      int
	Diverged string
	Skipped  int
}

func (s *ScriptSched) find(choices []Choice, a Action) int {
	for i, c := range choices {
		if c.Key == a.K {
			if c.Link != nil && a.C != "" && c.Link.Q[0].Class() != a.C {
				if !s.Lenient {
					s.Diverged = fmt.Sprintf("action %d %s: head class %s, recorded %s", s.pos, a.K, c.Link.Q[0].Class(), a.C)
				}
				if s.Lenient {
					return i
				}
				return -2
			}
			return i
		}
	}
	return -2
}

func (s *ScriptSched) Next(w *World, choices []Choice) (int, time.Duration) {
	for s.pos < len(s.Actions) && s.Diverged == "" {
		a := s.Actions[s.pos]
		if a.J {
			// a joined delivery whose leader was dropped: treat as a normal one
			a.J = false
		}
		s.pos++
		if a.K == "t" {
			return -1, a.D
		}
		i := s.find(choices, a)
		if i >= 0 {
			return i, 0
		}
		if !s.Lenient {
			if s.Diverged == "" {
				s.Diverged = fmt.Sprintf("action %d %s not enabled", s.pos-1, a.K)
			}
			break
		}
		s.Skipped++
	}
	return s.Tail.Next(w, choices)
}

// Peek returns the key of the next recorded action.
func (s *ScriptSched) Peek() (string, bool) {
	if s.pos < len(s.Actions) && s.Diverged == "" {
		return s.Actions[s.pos].K, true
	}
	return "", false
}

func (s *ScriptSched) Join(w *World, choices []Choice) int {
	if s.pos < len(s.Actions) && s.Actions[s.pos].J && s.Diverged == "" {
		a := s.Actions[s.pos]
		i := s.find(choices, a)
		if i >= 0 {
			s.pos++
			return i
		}
		if s.Lenient {
			s.pos++
			s.Skipped++
		}
	}
	return -1
}
