// Package simsync is a drop-in for the parts of package sync that the code
// under test uses. In a worker built with the "coop" overlay the import "sync"
// of package msg is redirected here. When no cooperative scheduler is active,
// or the calling goroutine is not one of its tasks, every primitive behaves
// exactly like the real one. When the caller is a task, it parks before each
// operation and publishes what it is about to do; the scheduler (engine E2)
// releases exactly one task at a time, and only into an operation that cannot
// block according to its own model of lock ownership.
package simsync

import (
	"sync"
	"unsafe"
)

type (
	WaitGroup = sync.WaitGroup
	Cond      = sync.Cond
	Map       = sync.Map
	Pool      = sync.Pool
	Locker    = sync.Locker
)

func NewCond(l Locker) *Cond { return sync.NewCond(l) }

type Mutex struct{ m sync.Mutex }

func (m *Mutex) Lock()   { Yield(OpLock, uintptr(unsafe.Pointer(m))); m.m.Lock() }
func (m *Mutex) Unlock() { Yield(OpUnlock, uintptr(unsafe.Pointer(m))); m.m.Unlock() }
func (m *Mutex) TryLock() bool {
	Yield(OpOther, uintptr(unsafe.Pointer(m)))
	return m.m.TryLock()
}

type RWMutex struct{ m sync.RWMutex }

func (m *RWMutex) Lock()           { Yield(OpLock, uintptr(unsafe.Pointer(m))); m.m.Lock() }
func (m *RWMutex) Unlock()         { Yield(OpUnlock, uintptr(unsafe.Pointer(m))); m.m.Unlock() }
func (m *RWMutex) RLock()          { Yield(OpRLock, uintptr(unsafe.Pointer(m))); m.m.RLock() }
func (m *RWMutex) RUnlock()        { Yield(OpRUnlock, uintptr(unsafe.Pointer(m))); m.m.RUnlock() }
func (m *RWMutex) RLocker() Locker { return (*rlocker)(m) }

type rlocker RWMutex

func (r *rlocker) Lock()   { (*RWMutex)(r).RLock() }
func (r *rlocker) Unlock() { (*RWMutex)(r).RUnlock() }

type Once struct{ o sync.Once }

func (o *Once) Do(f func()) {
	Yield(OpOther, uintptr(unsafe.Pointer(o)))
	o.o.Do(f)
}

func OnceFunc(f func()) func() { return sync.OnceFunc(f) }
