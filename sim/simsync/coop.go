package simsync

import (
	"bytes"
	"fmt"
	"runtime"
	"strconv"
	"sync"
	"sync/atomic"
	"testing/synctest"
	"verif/sim/prng"
)

type OpKind int

const (
	OpStart OpKind = iota
	OpLock
	OpUnlock
	OpRLock
	OpRUnlock
	OpAtomic
	OpOther
)

func (k OpKind) String() string {
	return [...]string{"start", "Lock", "Unlock", "RLock", "RUnlock", "atomic", "other"}[k]
}

type Op struct {
	Kind OpKind
	Addr uintptr
}

type Task struct {
	ID      int
	Name    string
	resume  chan struct{}
	pending *Op
	done    bool
	Steps   int
	panic   string
}

type lockState struct {
	writer  *Task
	readers map[*Task]int
}

// Sched is the cooperative scheduler of engine E2. It must be created and
// driven from the root goroutine of a synctest bubble.
type Sched struct {
	mu     sync.Mutex
	tasks  []*Task
	byGoid map[uint64]*Task
	locks  map[uintptr]*lockState
	names  map[uintptr]string // lock address -> stable name (order of first use)
	Yields int
	Trace  []string
}

var active atomic.Pointer[Sched]

func NewSched() *Sched {
	s := &Sched{byGoid: map[uint64]*Task{}, locks: map[uintptr]*lockState{}, names: map[uintptr]string{}}
	active.Store(s)
	return s
}

func (s *Sched) Close() { active.Store(nil) }

func goid() uint64 {
	var buf [64]byte
	n := runtime.Stack(buf[:], false)
	b := buf[10:n]
	i := bytes.IndexByte(b, ' ')
	if i < 0 {
		return 0
	}
	v, _ := strconv.ParseUint(string(b[:i]), 10, 64)
	return v
}

// Yield is called by the shims before every synchronisation operation.
func Yield(kind OpKind, addr uintptr) {
	s := active.Load()
	if s == nil {
		return
	}
	g := goid()
	s.mu.Lock()
	t := s.byGoid[g]
	if t == nil {
		s.mu.Unlock()
		return // not a task (e.g. the buffer's clock goroutine): behave like the real primitive
	}
	t.pending = &Op{Kind: kind, Addr: addr}
	s.Yields++
	s.mu.Unlock()
	<-t.resume
}

// Go starts f as a task. The task parks immediately; the scheduler decides when it starts.
func (s *Sched) Go(name string, f func()) *Task {
	t := &Task{ID: len(s.tasks), Name: name, resume: make(chan struct{})}
	s.mu.Lock()
	s.tasks = append(s.tasks, t)
	s.mu.Unlock()
	go func() {
		g := goid()
		s.mu.Lock()
		s.byGoid[g] = t
		t.pending = &Op{Kind: OpStart}
		s.mu.Unlock()
		<-t.resume
		defer func() {
			if r := recover(); r != nil {
				s.mu.Lock()
				t.panic = fmt.Sprint(r)
				s.mu.Unlock()
			}
			s.mu.Lock()
			t.done = true
			t.pending = nil
			delete(s.byGoid, g)
			s.mu.Unlock()
		}()
		f()
	}()
	return t
}

func (s *Sched) lockName(addr uintptr) string {
	if n, ok := s.names[addr]; ok {
		return n
	}
	n := "L" + strconv.Itoa(len(s.names))
	s.names[addr] = n
	return n
}

func (s *Sched) enabled(t *Task) bool {
	if t.pending == nil {
		return false
	}
	ls := s.locks[t.pending.Addr]
	switch t.pending.Kind {
	case OpLock:
		return ls == nil || (ls.writer == nil && len(ls.readers) == 0)
	case OpRLock:
		return ls == nil || ls.writer == nil
	}
	return true
}

func (s *Sched) apply(t *Task) {
	op := t.pending
	ls := s.locks[op.Addr]
	if ls == nil && (op.Kind == OpLock || op.Kind == OpRLock) {
		ls = &lockState{readers: map[*Task]int{}}
		s.locks[op.Addr] = ls
	}
	switch op.Kind {
	case OpLock:
		ls.writer = t
	case OpUnlock:
		if ls != nil {
			ls.writer = nil
		}
	case OpRLock:
		ls.readers[t]++
	case OpRUnlock:
		if ls != nil {
			ls.readers[t]--
			if ls.readers[t] <= 0 {
				delete(ls.readers, t)
			}
		}
	}
}

type Status struct {
	AllDone  bool
	Deadlock bool
	Enabled  []*Task
	Blocked  []*Task
	Panics   []string
}

// Poll waits for quiescence and reports which tasks can be released.
func (s *Sched) Poll() Status {
	synctest.Wait()
	prng.Heartbeat.Add(1)
	s.mu.Lock()
	defer s.mu.Unlock()
	var st Status
	alive := 0
	for _, t := range s.tasks {
		if t.panic != "" {
			st.Panics = append(st.Panics, t.Name+": "+t.panic)
		}
		if t.done {
			continue
		}
		alive++
		if s.enabled(t) {
			st.Enabled = append(st.Enabled, t)
		} else {
			st.Blocked = append(st.Blocked, t)
		}
	}
	st.AllDone = alive == 0
	st.Deadlock = alive > 0 && len(st.Enabled) == 0
	return st
}

// Describe returns a stable description of what t is about to do.
func (s *Sched) Describe(t *Task) string {
	if t.pending == nil {
		return "-"
	}
	if t.pending.Kind == OpStart {
		return "start"
	}
	return t.pending.Kind.String() + "(" + s.lockName(t.pending.Addr) + ")"
}

// Release lets t perform its pending operation and run to its next yield.
func (s *Sched) Release(t *Task) {
	s.mu.Lock()
	s.Trace = append(s.Trace, t.Name+":"+s.Describe(t))
	s.apply(t)
	t.pending = nil
	t.Steps++
	s.mu.Unlock()
	t.resume <- struct{}{}
}
