// Package atomic is the drop-in for sync/atomic used by the "coop" overlay:
// every operation is a scheduling point for tasks of the cooperative
// scheduler and otherwise the real operation.
package atomic

import (
	ra "sync/atomic"
	"unsafe"

	"verif/sim/simsync"
)

func y(p unsafe.Pointer) { simsync.Yield(simsync.OpAtomic, uintptr(p)) }

func AddInt32(addr *int32, delta int32) int32 {
	y(unsafe.Pointer(addr))
	return ra.AddInt32(addr, delta)
}
func AddInt64(addr *int64, delta int64) int64 {
	y(unsafe.Pointer(addr))
	return ra.AddInt64(addr, delta)
}
func AddUint32(addr *uint32, delta uint32) uint32 {
	y(unsafe.Pointer(addr))
	return ra.AddUint32(addr, delta)
}
func AddUint64(addr *uint64, delta uint64) uint64 {
	y(unsafe.Pointer(addr))
	return ra.AddUint64(addr, delta)
}
func LoadInt32(addr *int32) int32          { y(unsafe.Pointer(addr)); return ra.LoadInt32(addr) }
func LoadInt64(addr *int64) int64          { y(unsafe.Pointer(addr)); return ra.LoadInt64(addr) }
func LoadUint32(addr *uint32) uint32       { y(unsafe.Pointer(addr)); return ra.LoadUint32(addr) }
func LoadUint64(addr *uint64) uint64       { y(unsafe.Pointer(addr)); return ra.LoadUint64(addr) }
func StoreInt32(addr *int32, v int32)      { y(unsafe.Pointer(addr)); ra.StoreInt32(addr, v) }
func StoreInt64(addr *int64, v int64)      { y(unsafe.Pointer(addr)); ra.StoreInt64(addr, v) }
func StoreUint32(addr *uint32, v uint32)   { y(unsafe.Pointer(addr)); ra.StoreUint32(addr, v) }
func StoreUint64(addr *uint64, v uint64)   { y(unsafe.Pointer(addr)); ra.StoreUint64(addr, v) }
func SwapInt32(addr *int32, v int32) int32 { y(unsafe.Pointer(addr)); return ra.SwapInt32(addr, v) }
func SwapInt64(addr *int64, v int64) int64 { y(unsafe.Pointer(addr)); return ra.SwapInt64(addr, v) }
func SwapUint32(addr *uint32, v uint32) uint32 {
	y(unsafe.Pointer(addr))
	return ra.SwapUint32(addr, v)
}
func SwapUint64(addr *uint64, v uint64) uint64 {
	y(unsafe.Pointer(addr))
	return ra.SwapUint64(addr, v)
}
func CompareAndSwapInt32(addr *int32, o, n int32) bool {
	y(unsafe.Pointer(addr))
	return ra.CompareAndSwapInt32(addr, o, n)
}
func CompareAndSwapInt64(addr *int64, o, n int64) bool {
	y(unsafe.Pointer(addr))
	return ra.CompareAndSwapInt64(addr, o, n)
}
func CompareAndSwapUint32(addr *uint32, o, n uint32) bool {
	y(unsafe.Pointer(addr))
	return ra.CompareAndSwapUint32(addr, o, n)
}
func CompareAndSwapUint64(addr *uint64, o, n uint64) bool {
	y(unsafe.Pointer(addr))
	return ra.CompareAndSwapUint64(addr, o, n)
}

// The typed atomics: instrumented wrappers with the method sets of the originals.
type Bool struct{ v ra.Bool }

func (x *Bool) Load() bool                    { y(unsafe.Pointer(x)); return x.v.Load() }
func (x *Bool) Store(b bool)                  { y(unsafe.Pointer(x)); x.v.Store(b) }
func (x *Bool) Swap(b bool) bool              { y(unsafe.Pointer(x)); return x.v.Swap(b) }
func (x *Bool) CompareAndSwap(o, n bool) bool { y(unsafe.Pointer(x)); return x.v.CompareAndSwap(o, n) }

type Int32 struct{ v ra.Int32 }

func (x *Int32) Load() int32        { y(unsafe.Pointer(x)); return x.v.Load() }
func (x *Int32) Store(n int32)      { y(unsafe.Pointer(x)); x.v.Store(n) }
func (x *Int32) Add(d int32) int32  { y(unsafe.Pointer(x)); return x.v.Add(d) }
func (x *Int32) Swap(n int32) int32 { y(unsafe.Pointer(x)); return x.v.Swap(n) }
func (x *Int32) CompareAndSwap(o, n int32) bool {
	y(unsafe.Pointer(x))
	return x.v.CompareAndSwap(o, n)
}

type Int64 struct{ v ra.Int64 }

func (x *Int64) Load() int64        { y(unsafe.Pointer(x)); return x.v.Load() }
func (x *Int64) Store(n int64)      { y(unsafe.Pointer(x)); x.v.Store(n) }
func (x *Int64) Add(d int64) int64  { y(unsafe.Pointer(x)); return x.v.Add(d) }
func (x *Int64) Swap(n int64) int64 { y(unsafe.Pointer(x)); return x.v.Swap(n) }
func (x *Int64) CompareAndSwap(o, n int64) bool {
	y(unsafe.Pointer(x))
	return x.v.CompareAndSwap(o, n)
}

type Uint32 struct{ v ra.Uint32 }

func (x *Uint32) Load() uint32         { y(unsafe.Pointer(x)); return x.v.Load() }
func (x *Uint32) Store(n uint32)       { y(unsafe.Pointer(x)); x.v.Store(n) }
func (x *Uint32) Add(d uint32) uint32  { y(unsafe.Pointer(x)); return x.v.Add(d) }
func (x *Uint32) Swap(n uint32) uint32 { y(unsafe.Pointer(x)); return x.v.Swap(n) }
func (x *Uint32) CompareAndSwap(o, n uint32) bool {
	y(unsafe.Pointer(x))
	return x.v.CompareAndSwap(o, n)
}

type Uint64 struct{ v ra.Uint64 }

func (x *Uint64) Load() uint64         { y(unsafe.Pointer(x)); return x.v.Load() }
func (x *Uint64) Store(n uint64)       { y(unsafe.Pointer(x)); x.v.Store(n) }
func (x *Uint64) Add(d uint64) uint64  { y(unsafe.Pointer(x)); return x.v.Add(d) }
func (x *Uint64) Swap(n uint64) uint64 { y(unsafe.Pointer(x)); return x.v.Swap(n) }
func (x *Uint64) CompareAndSwap(o, n uint64) bool {
	y(unsafe.Pointer(x))
	return x.v.CompareAndSwap(o, n)
}

type Value = ra.Value

type Pointer[T any] struct{ v ra.Pointer[T] }

func (x *Pointer[T]) Load() *T     { y(unsafe.Pointer(x)); return x.v.Load() }
func (x *Pointer[T]) Store(p *T)   { y(unsafe.Pointer(x)); x.v.Store(p) }
func (x *Pointer[T]) Swap(p *T) *T { y(unsafe.Pointer(x)); return x.v.Swap(p) }
func (x *Pointer[T]) CompareAndSwap(o, n *T) bool {
	y(unsafe.Pointer(x))
	return x.v.CompareAndSwap(o, n)
}
