#!/bin/bash
# The repository's own test suite with the verification guard OFF.
# /verif never commits hook code into /repo (instrumentation is applied through
# `go build -overlay` in scratch directories), so this is simply the baseline command.
set -u
export GOFLAGS=-mod=mod GOPROXY=off GOSUMDB=off
rc=0
for m in . mpc/binance/ecdsa mpc/binance/eddsa mpc/bls mpc/ps test; do
  (cd /repo/$m && go test -mod=mod -json -vet=off -count=1 -timeout 25m ./...) || rc=1
done
exit $rc
