#!/usr/bin/env python3
# Regenerates /verif/MANIFEST.json from the table below.
import json
E1 = "netsim"
TRUST_E1 = "Trusted: the simulator (per-link FIFO transport, canonical ordering of same-step sends, seeded scheduler), go1.26.8 testing/synctest fake clock and quiescence detection, the harness oracles. Goroutine interleavings inside one simulator step are not enumerated (only made irrelevant for replay). Sampling, not proof."
C = {}
def chk(pid, engine, cat, text, tech, ref, note=TRUST_E1):
    C[pid] = {"property_id": pid,
      "quick_cmd": f"bin/verif check {pid} --tier quick",
      "thorough_cmd": f"bin/verif check {pid} --tier thorough",
      "evidence_file": f"/verif/evidence/{pid}.json",
      "replay_cmd_template": "bin/verif replay {path}",
      "engine": engine,
      "level_claimed": {"category": cat, "text": text, "design_ref": ref},
      "level_note": note,
      "technique": tech}

chk("C01", E1, "exploration",
    "Seeded search over delivery schedules (10 strategies, skewed starts, serial/concurrent dispatch, loud and silent mode) of complete BLS key generations through the real orchestrator/synchroniser/reliable broadcast/buffer, 2<=t<=n<=4 (thorough: 6); ~6% of the runs are the orchestrated-signing half: KeyGen then Sign among t+1 nodes through the real EdDSA adapter and tss-lib (ECDSA in the thorough tier), every returned signature verified with crypto/ed25519 / crypto/ecdsa for the requested digest incl. leading-zero, short and empty digests; after each BLS run the documented flow (load stored data, ThresholdPK, Sign, AggregateSignatures, Verify) is executed for 5 digests and every subset of size >= t, and public material is compared byte for byte.",
    "deterministic simulation (synctest bubble, seeded scheduler over per-link FIFO queues) + exhaustive subset oracle with real pairing crypto", "DESIGN.md §4 C01")
BYZ = "Sessions (KeyGen or Sign, N=3..4, thorough ..6) of real Schemes with a scripted backend in which 1..N-2 participants are Byzantine: they run the real stack, but everything they transmit passes an adversary (equivocation per destination, forged acknowledgements about themselves / others / unseen digests placed before or after the payload, replays, mutated and withheld acknowledgements) and outsiders (configured non-participants, unknown ids) inject traffic; all interleaved by 10 scheduling strategies. "
chk("C02", E1, "exploration",
    BYZ + "Invariant over the hand-off log of honest backends: for each (session, attributed sender, receiver-classified round) all payloads handed over are byte-identical.",
    "deterministic simulation with Byzantine fault injection, agreement invariant on recorded hand-offs", "DESIGN.md §4 C02")
chk("C03", E1, "exploration",
    BYZ + "Plus honest-only sessions. Oracle over hand-off log vs the simulator's post-adversary wire log: attributed sender is a participant and transmitted exactly that payload directly to this party; at most one hand-off per (party, sender, round); never empty/nil (a nil placeholder panics in the orchestrator and is captured); p2p hand-offs match received messages in content, source and multiplicity.",
    "deterministic simulation with Byzantine fault injection, integrity oracle (hand-off log vs wire log)", "DESIGN.md §4 C03")
chk("C04", E1, "exploration",
    "Seeded search over delivery schedules of fault-free KeyGen/Sign sessions (n=2..5, loud and silent mode, serial and concurrent dispatch, free-running multi-round scripted backend so that several senders and rounds are in flight) through the real orchestrator, synchroniser, reliable broadcast and silent-mode buffer; after all queues drained the hand-off log of every backend is compared with what was emitted (exactly once, right attribution, nothing else, no equivocation conclusion).",
    "deterministic simulation (synctest bubble, seeded scheduler over per-link FIFO queues), post-run hand-off oracle", "DESIGN.md §4 C04")
chk("C05", E1, "exploration",
    "One participant runs the real backend but its DKG messages are rewritten on its NIC according to a catalogue walked systematically by the run index (off-polynomial shares, reveal != commitment, consistently committed off-polynomial key, equivocated commitment / reveal, 8 malformations incl. wrong arity, duplicates, early reveal, second commitment, late share, withholding) x every non-empty victim subset; n=3..4 (thorough 5), 2<=t<=n incl. t=n, BLS and PS, loud and silent, seeded schedules, deadlines on the simulated clock. Oracle: no panic anywhere (worker death captured), every honest call returns by its deadline, honest completers hold byte-identical public material and every >=t subset of them signs verifiably (real BLS / PS flows), and a recording proxy checks that no honest party emits its reveal before it was handed the commitments of all others.",
    "deterministic simulation with a protocol-level Byzantine participant (catalogue enumeration x seeded schedules), result + disclosure-order oracle", "DESIGN.md §4 C05")
chk("C06", E1, "exploration",
    "Seeded membership maps over 16-bit ids (identity, injective non-identity, several nodes per party with any replica participating, two replicas of one party selected) x KeyGen/Sign x schedules; the scripted backend records Init/OnMsg arguments, the simulator records every wire message: Init = sorted party ids of the participants, OnMsg.from = party of the authenticated sender, each p2p message goes to exactly the participating node of the addressee, duplicate party => every call returns an error by its deadline.",
    "deterministic simulation + argument/destination monitor on recorded history", "DESIGN.md §4 C06")
chk("C07", E1, "exploration",
    "disc.Member instances (one per honest member, several topics concurrently) over the simulated transport; universes of 3..6 (thorough 8) members with ids over the 16-bit range, drawn invoker subsets and expected counts; 0..n-2 Byzantine configured members fabricate membership/query/response messages (valid and foreign tags; superset, subset, duplicate, unsorted, unknown-id, all-configured and empty views; unsolicited responses), up to 25 per run. Oracle per honest completion: list sorted, duplicate-free, contains self, expected size, only announced configured members; identical lists among honest members of a list; continuation exactly once iff nil; in fault-free exact-count configurations everybody completes before the simulated deadline; with too few members nobody completes.",
    "deterministic simulation with Byzantine message fabrication, validity/agreement/bounded-liveness oracle", "DESIGN.md §4 C07")
chk("C08", E1, "exploration",
    "PS DKG through the real stack under seeded schedules (2<=t<=n<=4, thorough 5; message length 1..4, thorough 6; loud/silent), then the documented flow with real crypto: Prover.Blind, TPS.Sign on every signer, UnBlind per signer, proof of knowledge for every subset of size >= t, Verifier.Verify, for 4 message vectors (empty / equal / 1-byte / long / random entries); public material compared byte for byte. The schedule dimension concerns the DKG; the rest is a seeded input sweep and is reported as such.",
    "deterministic simulation of the DKG + seeded input sweep of the documented PS flow (exhaustive over signer subsets)", "DESIGN.md §4 C08")
chk("C10", E1, "exploration",
    "Sessions (scripted/BLS/PS backends, loud and silent, KeyGen and Sign, n=2..4) receive 20..160 garbage messages each, injected at seeded points in the states idle / synchronising / protocol running / finished: structure-aware mutations of real in-flight messages (every truncation length, extension, empty, nil, message type, 7 topic shapes incl. nil and < 8 bytes, acknowledgement fields with digest lengths 0..64, first/second payload byte sweeps, bit flips, synchroniser messages of every length around the tag with odd tails, oversized views, floods beyond the buffer's per-sender limit) and raw random bytes, from Byzantine participants, a configured outsider and an unknown id. Oracle: no panic anywhere in the process, every HandleMessage returns, calls return by their deadline, and when the garbage does not belong to the session (other topics, non-participants) the session completes. 15% of the runs also push ~600 DER-structure-aware and byte-level mutants of valid public parameters, signatures, blinded requests, proofs and partial signatures through bls.Verifier, ps.TPS.Sign, ps.Verifier, ps.Prover (input mutation, labelled as such). The connection handshake is covered by C16/C17's engine.",
    "deterministic simulation with garbage injection in every session state + structure-aware input mutation of client-facing entry points", "DESIGN.md §4 C10")
chk("C11", E1, "fault_enumeration",
    "Crash points and single lost messages are enumerated on the canonical schedule for 8 base sessions (scripted, BLS and PS key generation, scripted signing; loud and silent): for every peer P and every k, P goes silent after its k-th outgoing message (k=0: never shows up), and every single message is withheld in turn; further runs draw crash point / withheld message / cancellation step / unusable stored data with a never-expiring context under seeded schedules (n=2..4, thorough ..5). Oracle: every live call returns (error or success) no later than its deadline / cancellation + 1 s of simulated time, no panic anywhere in the process for a further 5 simulated minutes (background goroutines included; a dying worker process is captured and replayed).",
    "deterministic simulation with enumerated crash points / withheld messages + seeded fault injection; return-by-deadline oracle on the simulated clock", "DESIGN.md §4 C11")
chk("C12", E1, "exploration",
    "Seeded histories of 2..6 phases over 1..3 topics on n=2..4 (thorough ..5) real Schemes with a scripted backend: successful, peer-missing, cancelled, overlapping same-topic and concurrent different-topic Sign, successful and peer-missing KeyGen, retries on the topic of an earlier failure; outsiders re-send copies of session traffic; the network is drained between phases and a seeded schedule runs inside each. Oracle: retries are admitted and succeed, overlapping same-topic call is refused without disturbing the first, concurrent topics both succeed with consistent outputs, every hand-off stems from an instance of the same phase and topic, from a participant, before the owning call returned. One known finding (silent-mode topic re-use) is listed in known_findings.jsonl.",
    "deterministic simulation over generated call histories, history oracle attributing every hand-off to its emitting session", "DESIGN.md §4 C12")
chk("C13", E1, "exploration",
    "Runs 0..454 enumerate all pairs and triples of 14 boundary identifiers (byte boundaries, 0, 0xFFFF); further runs sample the 16-bit range. Each case is a fault-free session (sync + KeyGen and/or Sign, scripted backend with rounds 0..127, or BLS with serialisation round trip and sign/verify) run twice under the same seed: with the drawn ids and with the order-isomorphic ids 1..n; outcome, hand-off counts and totality must agree.",
    "deterministic simulation, differential twin run (large ids vs order-isomorphic small ids)", "DESIGN.md §4 C13")

chk("C14", "coop", "exploration",
    "The real msg.Box is compiled with its imports sync and sync/atomic redirected (go build -overlay, regenerated from the working tree by every check) to scheduler-aware shims: every caller is a real goroutine that parks before each Lock/Unlock/RLock/RUnlock/atomic/Once operation; at quiescence the seeded scheduler computes the enabled set from its own lock-ownership model and releases exactly one task (random walk, PCT d=1..3, delay-bounded). Workloads: 1..3 topics, 1..3 senders with 1..4 sequential HandleMessage calls each, 1..3 tasks calling Send (several on one topic; a handler that itself calls Send in 30% of the runs), 0..2 clock ticks through the NewTicker seam. Oracle after one additional Send per started topic: every message received on a started topic was handed over exactly once, per (topic, sender) in arrival order, nothing handed over for never-started topics, no deadlock, no panic.",
    "controlled-concurrency deterministic simulation at lock granularity (import-substituted sync shims, seeded scheduler), exactly-once/order oracle", "DESIGN.md §4 C14",
    note="Trusted: the shims (drop-in method sets, pass-through for non-task goroutines), the scheduler's lock model, testing/synctest quiescence. Only package msg is instrumented; channel operations are not scheduling points (msg.Box has none on these paths except its clock goroutine, which is driven by the simulator).")
chk("C15", "box", "exploration",
    "Seeded histories of 20..250 (thorough ..2500) operations recv(sender, topic, burst up to 110) / send(topic) / idle(up to 3 expiry periods) on a real msg.Box inside one bubble: its ticker and time.Now read the simulated clock; MaxInFlightTopicsBySender 1..6, GCSweep 1/5/20 s, GCExpire 2..6 sweeps (production values in part of the thorough runs). A reference model judges every operation with narrow tolerances: never a panic or premature / duplicate / foreign hand-off; messages of a sender that was surely within the limits at arrival are released when their topic starts before expiry - 1 sweep, however many topics started or expired earlier; messages beyond limit+1 are not; data idle for more than two expiry periods + 2 sweeps followed by three sends in distinct sweep periods is discarded; in the tolerance bands either outcome is accepted.",
    "deterministic simulation over generated operation histories on the simulated clock, reference model with narrow tolerances", "DESIGN.md §4 C15",
    note="Trusted: the reference model (its tolerances are stated in the rule), testing/synctest fake clock. Single caller: interleavings are C14's subject.")
chk("C19", E1, "exploration",
    "KeyGen followed by Sign among t+1 nodes with the real EdDSA adapter and real tss-lib v2.0.2 through the full stack under seeded schedules, (n,t) in {(2,1),(3,1),(3,2),(4,2),(4,3)}; ECDSA in ~4% (quick) / 12% (thorough) of the runs (20-60 s each: safe-prime generation has no seam). A recording proxy captures every sendMsg(payload, isBroadcast): a fresh receiver-side adapter must classify each payload with the same broadcast flag; distinct broadcast-class type URLs of one phase must have distinct rounds; in 20% of the EdDSA runs one participant re-sends other parties' payloads under its own authenticated identity and the honest parties must finish with a valid signature or all fail; every returned signature is verified with crypto/ed25519 / crypto/ecdsa for the requested digest (32 random bytes, leading zero bytes, 0..20 bytes, 64 bytes) and must not verify for other sampled digests.",
    "deterministic simulation of the real adapters + tss-lib, routing/classification monitor, independent signature verification", "DESIGN.md §4 C19",
    note="Trusted: the simulator, crypto/ed25519, crypto/ecdsa. tss-lib runs its own goroutines and randomness: these runs replay by schedule, not byte for byte. In tss-lib v2.0.2 the wire bytes carry no sender (the adapter compares the transport sender with itself), so the sender-binding clause is only exercised behaviourally.")
chk("C20", E1, "exploration",
    "The worker is compiled with the Go race detector (GORACE=halt_on_error). Scenarios: BLS/PS key generation with a deviating participant (early reveal, duplicates, late share, second commitment, withholding, malformed, none) and session histories (concurrent Sign on several topics, overlapping, cancelled, retried; KeyGen), loud and silent, all with concurrent dispatch: the simulator starts up to 4 deliveries into the same node in one step, each on its own goroutine, next to protocol goroutines and timers. A race report or panic kills the worker; the driver captures it, re-executes the seed (several attempts: the interleaving inside a step is the Go scheduler's) and writes the replay.",
    "deterministic simulation with concurrent dispatch under the Go race detector", "DESIGN.md §4 C20",
    note="Trusted: Go race detector (happens-before; reports only races of explored executions), the simulator. Interleavings inside one step are not controlled: a reported race reproduces with high probability, not certainty; absence of a report is sampling evidence only.")
props = [json.loads(l)["id"] for l in open("/verif/properties.jsonl")]
NA = {
 "C09": "pure functions of their arguments (verification verdicts): no schedule, clock, peer, fault or shared state for a simulator to control; see DESIGN.md §5",
 "C18": "pure algebra (Lagrange coefficients, subset enumeration): nothing for a simulator to schedule or fault; the reachable consequences are exercised under C01/C05; see DESIGN.md §5",
}
na = []
for p in props:
    if p in C: continue
    na.append({"property_id": p, "reason": NA.get(p, "check not built yet (work in progress, see DESIGN.md §8)")})
engines = {}
for c in C.values():
    engines.setdefault(c["engine"], []).append(c["property_id"])
ENG = {
 "netsim": ("sim/netsim", "whole-deployment message-level deterministic simulator: all nodes (real code) in one testing/synctest bubble, seeded scheduler over simulator-owned per-link FIFO queues, fake clock, fault injection (crash, withhold, Byzantine NIC, garbage, late), replay files + ddmin minimisation"),
 "coop": ("sim/coop", "controlled-concurrency scheduler for msg.Box: sync/sync-atomic imports redirected to scheduler-aware shims through go build -overlay; one task released per step by the seeded scheduler"),
 "connsim": ("sim/connsim", "net.go over simulator-owned in-memory byte streams under real crypto/tls; tls.Dial redirected through go build -overlay"),
 "box": ("sim/checks", "single-bubble history simulator for msg.Box with simulator-owned ticker and fake clock"),
}
m = {"version": 1,
 "setup_cmd": "bash scripts/setup.sh",
 "hooks": {"guard": "none in /repo: instrumentation is generated per check into a scratch directory and applied with `go build -overlay` (worker build tags verif_coop / verif_connsim select the harness side)",
           "enable": "bin/verif check <id> regenerates the overlay from /repo's working tree and builds the worker with `go1.26.8 test -c [-race] [-overlay ...]`",
           "baseline_off_cmd": "bash scripts/baseline_off.sh", "source_commits": [], "add_only": True},
 "engines": [{"name": k, "path": ENG[k][0], "serves_properties": sorted(v), "kind_free_text": ENG[k][1]} for k, v in engines.items()],
 "checks": [C[k] for k in sorted(C)],
 "not_applicable": na,
 "notes": "Driver: sim/cmd/verif (built to bin/verif by setup). Exit 0 held (possibly KNOWN-FINDING lines) / 1 VIOLATION / 2 tool trouble. Known findings and fixed defects: known_findings.jsonl. fix: commits in /repo are listed there with their sha."}
json.dump(m, open("/verif/MANIFEST.json", "w"), indent=1)
print("claimed:", sorted(C), "not claimed:", [x["property_id"] for x in na])
