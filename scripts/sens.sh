#!/bin/bash
# Sensitivity helper: run a check against a scratch worktree of /repo with a change applied.
#   scripts/sens.sh revert:<sha>   <Cxx> [check args]   (git revert --no-commit of a fix commit)
#   scripts/sens.sh <patch.diff>   <Cxx> [check args]
# The worktree lives under $TMPDIR and is removed afterwards; evidence/replays go to a scratch dir too.
set -u
change=$1; shift
prop=$1; shift
wt=$(mktemp -d /tmp/sens-XXXXXX)
out=$(mktemp -d /tmp/sens-out-XXXXXX)
git -C /repo worktree add -q --detach "$wt" HEAD || exit 2
if [[ "$change" == revert:* ]]; then
  (cd "$wt" && git revert --no-commit ${change#revert:} >/dev/null) || { echo "revert failed"; git -C /repo worktree remove --force "$wt"; exit 2; }
else
  (cd "$wt" && git apply "$change") || { echo "patch does not apply"; git -C /repo worktree remove --force "$wt"; exit 2; }
fi
VERIF_REPO="$wt" VERIF_OUT="$out" /verif/bin/verif check "$prop" "$@"
rc=$?
echo "sens: exit=$rc (replays kept in $out/replays until you delete them)"
git -C /repo worktree remove --force "$wt"
rm -rf "$out/evidence"
exit $rc
