#!/bin/bash
# seeded_take.sh <id> <worktree> <module-dir-relative> <go-test-args...>
# Takes a seeded change out of a sub-agent's worktree: saves patch + demo under /verif/seeded/<id>/,
# confirms that the demo fails with the patch and passes without it, and that the touched module's tests pass.
set -u
id=$1; wt=$2; mod=$3; shift 3
export GOFLAGS=-mod=mod GOPROXY=off GOSUMDB=off
dst=/verif/seeded/$id
mkdir -p "$dst"
git -C "$wt" diff -- . ':(exclude)*_test.go' > "$dst/patch.diff"
for f in $(git -C "$wt" ls-files --others --exclude-standard); do mkdir -p "$dst/demo/$(dirname $f)"; cp "$wt/$f" "$dst/demo/$f"; done
echo "== patch: $(grep -c '^[+-][^+-]' $dst/patch.diff) changed lines; demo files: $(cd $dst/demo 2>/dev/null && find . -type f | tr '\n' ' ')"
echo "== demo WITH the change"
(cd "$wt/$mod" && go test -vet=off -count=1 "$@" 2>&1 | grep -v "^{" | tail -8); 
echo "== demo WITHOUT the change"
# (not git stash: the stash is shared by all worktrees of a repository, and sub-agents use it concurrently)
(cd "$wt" && git apply -R "$dst/patch.diff") || { echo "cannot reverse the patch"; exit 2; }
(cd "$wt/$mod" && go test -vet=off -count=1 "$@" 2>&1 | grep -v "^{" | tail -4)
(cd "$wt" && git apply "$dst/patch.diff")
