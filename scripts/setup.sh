#!/bin/bash
# Build the driver (and the overlay generator) from files on disk only.
set -eu
export GOFLAGS=-mod=mod GOPROXY=off GOSUMDB=off GOTOOLCHAIN=local
here=$(cd "$(dirname "$0")/.." && pwd)
cd "$here/sim"
mkdir -p "$here/bin" "$here/evidence" "$here/replays"
go1.26.8 build -o "$here/bin/verif" ./cmd/verif
go1.26.8 build -o "$here/bin/mkoverlay" ./cmd/mkoverlay
# warm the build cache for the worker (std + dependencies), so that the first check is quick
go1.26.8 test -c -o /dev/null ./worker/ || true
