#!/bin/bash
# Build the driver (and the overlay generator) from files on disk only.
set -eu
export GOFLAGS=-mod=mod GOPROXY=off GOSUMDB=off GOTOOLCHAIN=local
cd /verif/sim
mkdir -p /verif/bin /verif/evidence /verif/replays
go1.26.8 build -o /verif/bin/verif ./cmd/verif
if [ -d ./cmd/mkoverlay ]; then go1.26.8 build -o /verif/bin/mkoverlay ./cmd/mkoverlay; fi
# warm the build cache for the worker (std + dependencies), so that the first check is quick
go1.26.8 test -c -o /dev/null ./worker/ || true
