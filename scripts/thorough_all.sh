#!/bin/bash
# Runs the thorough tier of every check in sequence (for background use: `vp run -- bash scripts/thorough_all.sh`).
here=$(cd "$(dirname "$0")/.." && pwd)
export VERIF_DIR="$here" VERIF_OUT="$here"
bash "$here/scripts/setup.sh" || exit 2
cd "$here"
rc=0
for c in ${CHECKS:-C14 C15 C04 C02 C03 C06 C07 C13 C12 C11 C05 C01 C08 C10 C16 C17 C20 C19}; do
  s=$(date +%s)
  VERIF_SEED=${VERIF_SEED:-1} bin/verif check $c --tier thorough > "log_$c.txt" 2>&1
  r=$?
  e=$(date +%s)
  echo "$c rc=$r $((e-s))s $(grep -E 'runs \(' log_$c.txt | cut -c1-140)"
  grep -E "VIOLATION|KNOWN-FINDING|vacuity|tool trouble" "log_$c.txt" | cut -c1-300
  [ $r -ne 0 ] && rc=$r
done
exit $rc
