#!/bin/bash
# Re-runs the quick tier of the owning check against every seeded change (scratch worktrees; /repo is not touched)
# and prints one line per change: caught / MISSED. Exit 1 if any change is missed.
cd "$(dirname "$0")/.."
rc=0
for d in seeded/*/; do
  id=$(basename "$d")
  [ -n "${ONLY:-}" ] && [[ ! " $ONLY " == *" $id "* ]] && continue
  prop=$(python3 -c "import json;m=json.load(open('$d/meta.json'));print(m.get('caught_by_check',m['breaks_property']))" 2>/dev/null) || continue
  out=$(scripts/seeded_check.sh "$id" "$prop" --tier quick 2>&1 | tail -1)
  if echo "$out" | grep -q "exit=1"; then echo "caught  $id $prop  $(echo $out | sed 's/.*wall=/wall=/')"; else echo "MISSED  $id $prop  $out"; rc=1; fi
done
exit $rc
