#!/usr/bin/env python3
# seeded_meta.py <id> <property> <source> <needs> <demo_cmd> <caught: yes|no|after-strengthening> <what_ran / result>
import json,sys,subprocess
id_,prop,source,needs,demo,caught,ran=sys.argv[1:8]
rev=subprocess.check_output(["git","-C","/repo","rev-parse","--short","HEAD"]).decode().strip()
m={"id":id_,"breaks_property":prop,"source":source,"needs_to_manifest":needs,
   "demonstration":{"files":"demo/","command":demo,"confirmed":"fails with patch.diff applied, passes without (scripts/seeded_take.sh)"},
   "existing_tests":"the packages touched by the patch pass with it (confirmed by the author and re-run by scripts/seeded_take.sh / go test)",
   "applies_to_repo_rev":rev,
   "detected":caught,"what_was_run":ran}
json.dump(m,open(f"/verif/seeded/{id_}/meta.json","w"),indent=1)
print("meta written for",id_)
