#!/bin/bash
# seeded_check.sh <id> <Cxx> [check args]: applies /verif/seeded/<id>/patch.diff to /repo, runs the check, undoes the patch.
set -u
id=$1; prop=$2; shift 2
cd /repo || exit 2
git diff --quiet || { echo "/repo is dirty"; exit 2; }
git apply "/verif/seeded/$id/patch.diff" || { echo "patch does not apply"; exit 2; }
out=$(mktemp -d /tmp/seeded-out-XXXXXX)
s=$(date +%s)
VERIF_OUT="$out" /verif/bin/verif check "$prop" "$@" > "$out/log.txt" 2>&1
rc=$?
e=$(date +%s)
git -C /repo checkout -- .
grep -E "VIOLATION|class=|KNOWN|runs \(" "$out/log.txt" | cut -c1-260
echo "seeded_check: id=$id check=$prop exit=$rc wall=$((e-s))s"
mkdir -p "/verif/seeded/$id"
ls "$out/replays" 2>/dev/null | head -3
if [ $rc -eq 1 ]; then f=$(ls "$out/replays" | head -1); cp "$out/replays/$f" "/verif/seeded/$id/caught_by_$prop.replay.json"; fi
rm -rf "$out"
exit $rc
