#!/bin/bash
# seeded_check.sh [--in-repo] <id> <Cxx> [check args]
# Runs a check against IBM/TSS with /verif/seeded/<id>/patch.diff applied.
#   default:   in a scratch worktree of /repo (VERIF_REPO), safe while other runs use /repo
#   --in-repo: git -C /repo apply, run, git -C /repo checkout -- .   (only when nothing else is using /repo)
set -u
inrepo=0
if [ "$1" = "--in-repo" ]; then inrepo=1; shift; fi
id=$1; prop=$2; shift 2
out=$(mktemp -d /tmp/seeded-out-XXXXXX)
if [ $inrepo -eq 1 ]; then
  cd /repo || exit 2
  git diff --quiet || { echo "/repo is dirty"; exit 2; }
  git apply "/verif/seeded/$id/patch.diff" || { echo "patch does not apply"; exit 2; }
  s=$(date +%s)
  VERIF_OUT="$out" /verif/bin/verif check "$prop" "$@" > "$out/log.txt" 2>&1
  rc=$?
  git -C /repo checkout -- .
else
  wt=$(mktemp -d /tmp/seeded-wt-XXXXXX)
  git -C /repo worktree add -q --detach "$wt" HEAD || exit 2
  (cd "$wt" && git apply "/verif/seeded/$id/patch.diff") || { echo "patch does not apply"; git -C /repo worktree remove --force "$wt"; exit 2; }
  s=$(date +%s)
  VERIF_REPO="$wt" VERIF_OUT="$out" /verif/bin/verif check "$prop" "$@" > "$out/log.txt" 2>&1
  rc=$?
  git -C /repo worktree remove --force "$wt"
fi
e=$(date +%s)
grep -E "VIOLATION|class=|KNOWN|runs \(|vacuity|trouble" "$out/log.txt" | cut -c1-260
echo "seeded_check: id=$id check=$prop exit=$rc wall=$((e-s))s mode=$([ $inrepo -eq 1 ] && echo in-repo || echo scratch-worktree)"
if [ $rc -eq 1 ]; then f=$(ls "$out/replays" | head -1); cp "$out/replays/$f" "/verif/seeded/$id/caught_by_$prop.replay.json"; fi
rm -rf "$out"
exit $rc
