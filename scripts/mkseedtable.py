#!/usr/bin/env python3
# Regenerates section 10 of DESIGN.md (between the markers) from /verif/seeded/*/meta.json.
import json,glob,re
rows=[]
for f in sorted(glob.glob('/verif/seeded/*/meta.json')):
    m=json.load(open(f))
    rows.append(m)
n=len(rows); direct=sum(1 for m in rows if m['detected']=='yes'); after=sum(1 for m in rows if m['detected']=='after-strengthening'); other=sum(1 for m in rows if m['detected']=='by-another-check'); missed=n-direct-after-other
out=[]
out.append("## 10. Deliberately broken variants (`/verif/seeded/`) and which checks catch them\n")
out.append(f"{n} changes, each written by a fresh sub-agent that saw only the text of one property and its own scratch worktree of `/repo` (nothing from `/verif`). Each was kept only after I had confirmed, in the agent's worktree, that it compiles, that the demonstration fails with it and passes without it (`scripts/seeded_take.sh`), and that the touched packages' existing tests pass. Each directory holds `patch.diff`, `demo/` (the demonstration), `meta.json` (what it needs in order to manifest, what was run) and, when caught, the replay file the check produced. The checks were run with `scripts/seeded_check.sh <id> <Cxx> --tier quick` (patch applied to a scratch worktree while background runs were using `/repo`; `--in-repo` applies it to `/repo` itself and undoes it afterwards).\n")
out.append(f"Result: **{direct} caught by the check of the property they were written against, as it stood; {other} caught, as they stood, by the check of another property that the change breaks as well (the property named in the agent's brief is not always the one a change violates most directly); {after} caught after the check was strengthened; {missed} not caught.** Every miss exposed a blind spot, and the strengthening is general, not tailored to the patch:\n")
for m in rows:
    if m['detected']=='by-another-check':
        out.append(f"* **{m['id']}** — {m['what_was_run']}")
out.append("")
for m in rows:
    if m['detected']=='after-strengthening':
        w=m['what_was_run']
        i=w.find('Strengthened:')
        if i<0: i=w.find("C04's statement")
        s=w[i:] if i>=0 else w
        s=s.split(' Then scripts/')[0]
        out.append(f"* **{m['id']}** — {s}")
out.append("")
out.append("| id | property | what it needs to manifest | caught | by (class) |")
out.append("|---|---|---|---|---|")
for m in rows:
    w=m['what_was_run']
    cls=re.findall(r'class(?:es)? ([^;()]+)', w)
    c=cls[-1].strip().rstrip('.') if cls else ''
    c=c[:110]
    needs=m['needs_to_manifest']
    if len(needs)>230: needs=needs[:227]+'…'
    out.append(f"| {m['id']} | {m['breaks_property']} | {needs} | {m['detected']} | `{c}` |")
out.append("")
text="\n".join(out)
p='/verif/DESIGN.md'
s=open(p).read()
a='<!-- SEEDED-TABLE-BEGIN -->'; b='<!-- SEEDED-TABLE-END -->'
if a in s:
    s=s[:s.index(a)+len(a)]+"\n"+text+"\n"+s[s.index(b):]
else:
    s=s.rstrip()+"\n\n\n"+a+"\n"+text+"\n"+b+"\n"
open(p,'w').write(s)
print(n,direct,other,after,missed)
