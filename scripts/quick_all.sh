#!/bin/bash
# Runs the quick tier of every check in sequence, in this checkout, against /repo (refreshes evidence/*.json).
here=$(cd "$(dirname "$0")/.." && pwd)
bash "$here/scripts/setup.sh" >/dev/null || exit 2
cd "$here"
rc=0
for c in ${CHECKS:-C01 C02 C03 C04 C05 C06 C07 C08 C10 C11 C12 C13 C14 C15 C16 C17 C19 C20}; do
  s=$(date +%s)
  VERIF_SEED=${VERIF_SEED:-1} bin/verif check $c --tier quick > "/tmp/quick_$c.txt" 2>&1
  r=$?
  e=$(date +%s)
  echo "$c rc=$r $((e-s))s $(grep -E 'runs \(' /tmp/quick_$c.txt | cut -c1-120)"
  grep -E "VIOLATION|KNOWN-FINDING|vacuity|tool trouble" "/tmp/quick_$c.txt" | cut -c1-300
  [ $r -ne 0 ] && rc=$r
done
exit $rc
