package net

import (
	"crypto/tls"
	"crypto/x509"
	"encoding/asn1"
	"fmt"
	"testing"
	"time"

	"github.com/IBM/TSS/testutil/tlsgen"
	"github.com/stretchr/testify/assert"
)

// An unauthenticated client sends a handshake whose domain is a T61String that is not valid UTF-8.
func TestHandshakeThatCannotBeReEncoded(t *testing.T) {
	l := logger("test", t.Name())
	ca, err := tlsgen.NewCA()
	assert.NoError(t, err)
	pool := x509.NewCertPool()
	pool.AppendCertsFromPEM(ca.CertBytes())
	port := allocatePorts(t, 1)[0]
	srv, err := ca.NewServerCertKeyPair("127.0.0.1")
	assert.NoError(t, err)
	addr := fmt.Sprintf("127.0.0.1:%d", port)
	lsnr := Listen(addr, srv.Cert, srv.Key)
	_, stop := ServiceConnections(lsnr, participant2ID{}, l)
	defer stop()

	conn, err := tls.Dial("tcp", addr, &tls.Config{RootCAs: pool})
	assert.NoError(t, err)
	cs := conn.ConnectionState()
	binding, err := cs.ExportKeyingMaterial("MPC", []byte("MPC"), 32)
	assert.NoError(t, err)
	anyone, err := ca.NewClientCertKeyPair()
	assert.NoError(t, err)
	h := Handshake{Domain: "xy", TLSBinding: binding, Identity: anyone.Cert, Timestamp: time.Now().Unix(), Signature: []byte{1, 2, 3}}
	b, err := asn1.Marshal(h)
	assert.NoError(t, err)
	off := 2
	if b[1]&0x80 != 0 {
		off = 2 + int(b[1]&0x7f)
	}
	b[off], b[off+2], b[off+3] = 0x14, 0xff, 0xfe
	frame := append([]byte{byte(len(b)), byte(len(b) >> 8)}, b...)
	_, err = conn.Write(frame)
	assert.NoError(t, err)
	time.Sleep(time.Second) // the node must still be alive
}
